# Builds the simcheck worker from /repo's current working tree (never from /repo/_build).
#   make flavour=asan|tsan
flavour ?= asan
REPO ?= /repo
B := build/$(flavour)
CXX := clang++
COMMON := -std=c++17 -g -O1 -DBITSERIALIZER_VERIF -I$(REPO)/include -I$(REPO)/src -Isim -Iharness -Wno-deprecated-declarations -fno-omit-frame-pointer
ifeq ($(flavour),asan)
SAN := -fsanitize=address,undefined -fno-sanitize-recover=all -fsanitize-ignorelist=$(CURDIR)/sim/ubsan_ignore.txt
else
SAN := -fsanitize=thread
RTDEF := -DSIM_NO_NEW_REPLACEMENT -DSIM_TSAN_ATOMIC_POINTS
# every atomic operation of instrumented code becomes a scheduling point (sim/simsched.cpp)
ATOMIC_OPS := load store exchange fetch_add fetch_sub compare_exchange_strong compare_exchange_weak
ATOMIC_WRAPS := $(foreach n,8 32 64,$(foreach op,$(ATOMIC_OPS),-Wl,--wrap=__tsan_atomic$(n)_$(op)))
endif
COV := -fsanitize-coverage=trace-pc-guard
LDFLAGS := $(SAN) -lpugixml -pthread -Wl,--wrap=__cxa_guard_acquire -Wl,--wrap=__cxa_guard_release -Wl,--wrap=__cxa_guard_abort $(ATOMIC_WRAPS)

HARNESS_SRC := $(wildcard harness/*.cpp)
LIB_SRC := $(wildcard $(REPO)/src/common/*.cpp $(REPO)/src/csv/*.cpp $(REPO)/src/msgpack/*.cpp)
HARNESS_OBJ := $(patsubst harness/%.cpp,$(B)/h_%.o,$(HARNESS_SRC))
LIB_OBJ := $(patsubst $(REPO)/src/%.cpp,$(B)/lib_%.o,$(LIB_SRC))
RT_OBJ := $(B)/rt_runtime.o $(B)/rt_simsched.o

all: $(B)/simcheck

$(B)/simcheck: $(HARNESS_OBJ) $(LIB_OBJ) $(RT_OBJ)
	$(CXX) -o $@ $^ $(LDFLAGS)

$(B)/h_%.o: harness/%.cpp Makefile sim/ubsan_ignore.txt
	@mkdir -p $(dir $@)
	$(CXX) $(COMMON) $(SAN) $(COV) -MMD -MP -c $< -o $@

$(B)/lib_%.o: $(REPO)/src/%.cpp Makefile sim/ubsan_ignore.txt
	@mkdir -p $(dir $@)
	$(CXX) $(COMMON) $(SAN) $(COV) -MMD -MP -c $< -o $@

# the runtime defines the coverage callbacks and the scheduler hand-off: no coverage instrumentation, no sanitizer
$(B)/rt_%.o: sim/%.cpp Makefile
	@mkdir -p $(dir $@)
	$(CXX) -std=c++17 -g -O1 -Isim $(RTDEF) -fno-omit-frame-pointer -MMD -MP -c $< -o $@

clean:
	rm -rf build

-include $(wildcard $(B)/*.d $(B)/*/*.d)
.PHONY: all clean
