#!/usr/bin/env python3
"""Writes MANIFEST.json (kept as a generator so that the claimed list and the not-applicable list stay in step)."""
import json, subprocess

CLAIMED = {
 "C01": ("exploration", "seeded simulation: a generated value is saved through a seeded output configuration (memory or simulated ostream with out-buffer size, 5 encodings, BOM, formatting, CSV separator) and loaded back through a seeded input configuration (memory or simulated istream: file/pipe, delivery sizes, chunk knobs); equality oracle against the generated value and load-save-load fixed point; 1 run in 4 uses a struct holding every std adapter the library ships (containers on both sides of the 1024-element estimate cap, calendar corners, multimap order)", "6 C01",
         "The configuration half is what the simulator owns; the value half is seeded sampling of DynNode trees (scalars of all widths, four string widths with markup sequences, time points, byte containers, arrays, objects with const char*/prefix/integer keys). Known findings KF-CSV-EMPTY-TABLE, KF-JSON-BOMLESS-DETECT and KF-JSON-DOUBLE-PRECISION-* are avoided in 63 of 64 runs."),
 "C02": ("exploration", "seeded simulation: storage-corruption faults (bit flips, set, truncate, duplicated/lost/garbage blocks, zeroed ranges, inflated length fields, nesting bombs, pure garbage) on a simulated file written by the real writer, delivered through memory and seeded stream entries (file/pipe, delivery sizes, chunk knobs) into same-shape, other-shape and std-container targets under both policies, reading programs with failing validators, a read-only guard-paged string_view entry, streams whose caller enabled failbit/eofbit exceptions; plus legs for the chrono converters (ISO-8601 grammar with extreme fields), the UTF transcoders with long error marks and the enum stream operators on failing streams; oracle = only std::exception, no terminate/signal/sanitizer report, deterministic basic-block and stream-call budgets, allocator ledger bound", "6 C02",
         "The converter legs are seeded input generation (no schedule or fault of their own except the failing stream of the enum operators); they ride on the loader check because the property names them. malloc inside RapidJSON/pugixml is not faulted or metered. Stack: 8 MiB worker stack, documents <= 64 KiB."),
 "C03": ("exploration", "seeded simulation: generated request histories (keyed reads in any order, repeats, absent keys, VisitKeys, nested objects/arrays left partly read, members never requested) executed by a user-type program model against an object document followed by a sentinel, through memory and seeded stream entries (file/pipe, delivery sizes, chunk knobs, stream start offsets that slide the object across the chunk boundary, MessagePack re-encoded the way other encoders write integers, byte containers stored as plain arrays); reference = the generated tree, checked after every request; a leg with documents that omit members of a struct of std adapters", "6 C03",
         "On a non-seekable stream a request that needs a seek may end in a SerializationException instead of the value (stated relaxation). Regions of C01's known findings (XML empty containers, inexact JSON doubles) are not generated."),
 "C05": ("exploration", "seeded simulation: typed-corruption faults (a stored value replaced by a string/array/object/null/float/out-of-range or wide number/bin/array-of-bytes/timestamp/application ext value, in every header size class) under both Skip policies, differential against the same load of the unfaulted document through memory and seeded stream entries; Required() on the offended members must be the only validation errors; legs for std::vector targets beyond the estimate cap and for std::tuple/std::array/vector-of-tuple targets", "6 C05",
         "Offence kinds are restricted per archive to definite mismatches (e.g. XML cannot tell an object from an array, a CSV cell is always a valid string). The unfaulted load is the specification for the neighbours."),
 "C10": ("exploration", "seeded simulation: differential memory-load vs stream-load of the same bytes under seeded delivery schedules of a simulated streambuf (file/pipe, 1..300 bytes per underflow), chunk-size knobs, stream start offsets and storage-corruption faults, including reading programs with failing validators (same paths and messages), documents at every format size threshold, a struct of std adapters, arbitrary JSON doubles and foreign integer encodings; stream save vs memory save, also for strings that are not well-formed UTF-8", "6 C10",
         "Samples the space of (document, corruption, delivery schedule, knob) tuples; the memory outcome is the specification, so an error shared by both readers is invisible. Trusted: libstdc++ iostreams, RapidJSON, pugixml, the harness models. KF-JSON-SAVE-ILLFORMED-UTF8 avoided in 63 of 64 runs of its leg."),
 "C13": ("exploration", "seeded simulation: text encoded by an independent reference codec (5 encodings, with/without BOM, code points of every UTF-8/UTF-16 length round the chunk boundary) on a simulated file with an EOF fault at a seeded byte, read through CEncodedStreamReader for every target width, chunk size (32/64/256 by template, 36/40/128 by the guarded knob) and both policies under seeded delivery schedules; CEncodedStreamWriter output against the reference encoding under seeded Write() splits and out-buffer sizes; a refused (ill-formed) write between good writes; hand-built reference-encoded CSV/JSON/XML documents through the stream entry points and back out through the archive's stream writer (pretty-printed or not); DetectEncoding on streams not at position 0", "6 C13",
         "BOM-less texts begin with an ASCII character other than NUL (the property's precondition) and contain no NUL; the first character is never NUL (FF FE 00 00 is ambiguous). UTF-8 into a char target is a byte copy by design. The RapidYAML entry point is not built."),
 "C18": ("exploration", "seeded simulation: histories of 2-6 loads into one persistent target holding every std adapter the library ships (sequence, associative, unordered containers, adapters, optional, smart pointers, bitset, tuple, pair, atomic, strings, nested combinations, CSV rows), with intermediate loads aborted midway by injected faults (EOF at a byte, k-th allocation failing, device error silent or thrown); final state compared with the same load into a default-constructed target; MapLoadMode::OnlyExistKeys/UpdateKeys against a reference map replaying the history and a metamorphic leg with repeated keys (result independent of prior values); documents written by other class versions (null elements, objects lacking members, chrono texts under Skip policies), aliased shared_ptr slots; allocator ledger balanced after the target is destroyed", "6 C18",
         "Differential against a fresh target: an error shared by both is invisible. Text formats: string fields are non-empty (\"\" is null there and null leaves a field unchanged by the documented rule). KF-XML-NULL-VS-EMPTY avoided in 63 of 64 runs."),
 "C19": ("exploration", "seeded simulation of thread interleavings: 2-4 real threads, each with 3-10 operations (save/load on all four archives via memory and simulated streams on thread-local models, shared const model and input buffers, Convert of numbers/enums/chrono/time_t/UTF, validation-failing and corrupted loads, file round trips on files of their own, 100-140 level deep documents, per-operation options) are parked and released one at a time by a seeded scheduler (random walk and PCT-style change points) with a preemption point at every basic block of instrumented code (-fsanitize-coverage=trace-pc-guard), every armed allocation, every simulated stream call and (tsan flavour) every atomic operation; cold runs in fresh processes so that first-use initialisation happens under the scheduler; oracle 1 (asan+ubsan flavour) = every result equals the sequential run of the same operations; oracle 2 (tsan flavour, same plans) = ThreadSanitizer happens-before detection, to which the scheduler's futex hand-off is invisible", "6 C19",
         "Exactly one thread runs at a time, so a race is observed through its effect on results (flavour asan) or through TSan's vector clocks (flavour tsan), not through simultaneous execution. libstdc++ and pugixml are not TSan-instrumented. A TSan report without a BitSerializer frame is a harness error (exit 2), not a violation."),
 "C20": ("fault_enumeration", "seeded simulation with exhaustive fault sweeps: for each seeded scenario (archive x dyn/zoo model x save/load x memory/stream) one fault kind is injected at EVERY position in turn - EOF at every byte, the k-th operator new failing for every k inside the library call, the simulated streambuf failing silently (badbit) or by throwing at every byte on load and on save, and library-detected errors at every place the scenario offers (CSV row width at every row, mismatched value at every field with ThrowError, unencodable text at every string, size() lie at every array), the latter combined with the k-th allocation failing; a quarter of the scenarios call every operation from a destructor during stack unwinding; oracle = std::exception reaches the caller, no std::terminate/signal/sanitizer report/hang, MessagePack prefixes rejected, failure observable on return, no allocation failure swallowed, exact allocator-ledger balance, partly loaded target reloadable", "6 C20",
         "Exhaustive per scenario, scenarios are sampled (exhaustive=false for the check). malloc inside RapidJSON/pugixml is not faulted. A leak must repeat on an immediate re-run to be reported (first-use statics are not leaks). fail@n is 'observable' when the call throws or the stream reports fail()."),
}
NA = {
 "C04": "pure value->value function of (number, target type, policy): no stream, allocator, schedule, fault or history in statement or quantifier; simulation has nothing to own (exhaustive/boundary enumeration is the right tool)",
 "C06": "pure function of the saved value against an independent MessagePack decoder; its only I/O clause (memory and stream output byte-identical) is asserted by C10's save direction",
 "C07": "pure function of the input bytes against an independent reference decoder; truncation rejection is asserted by C20, crash-freedom by C02, reader-copy divergence by C10",
 "C08": "pure conformance of output text against independent JSON/XML parsers/emitters; nothing to schedule or fault",
 "C09": "pure RFC 4180 conformance against an independent CSV parser/writer; the memory-vs-stream clause is asserted by C10, encodings/BOM by C13 and C01",
 "C11": "pure function over code-point sequences with a finite domain per code point (exhaustive enumeration is the right tool)",
 "C12": "pure function over code-unit sequences (truncated tails in a chunked stream are C13)",
 "C14": "pure calendar arithmetic",
 "C15": "pure parser over strings",
 "C16": "pure number<->text conversion",
 "C17": "pure function of (document, validators, maxValidationErrors); the error map lives and dies inside one call",
}
PENDING = {}

def main():
    commits = subprocess.run(["git", "-C", "/repo", "log", "--format=%H %s"], stdout=subprocess.PIPE, text=True).stdout.splitlines()
    hooks = [c.split()[0] for c in commits if " verif hook:" in c]
    checks = []
    for pid, (cat, technique, ref, note) in sorted(CLAIMED.items()):
        checks.append({
            "property_id": pid,
            "quick_cmd": "python3 driver/simcheck.py check %s --tier quick" % pid,
            "thorough_cmd": "python3 driver/simcheck.py check %s --tier thorough" % pid,
            "evidence_file": "/verif/evidence/%s.json" % pid,
            "replay_cmd_template": "python3 driver/simcheck.py replay {path}",
            "engine": "simcheck",
            "level_claimed": {"category": cat, "text": technique, "design_ref": "DESIGN.md section " + ref},
            "level_note": note,
            "technique": "deterministic simulation with fault injection: " + technique.split(":")[0],
        })
    na = [{"property_id": k, "reason": v} for k, v in sorted({**NA, **PENDING}.items())]
    m = {
        "version": 1,
        "setup_cmd": "make -C /verif -j16 flavour=asan && make -C /verif -j16 flavour=tsan",
        "hooks": {
            "guard": "BITSERIALIZER_VERIF",
            "enable": "the harness compiles /repo/include and /repo/src/{common,csv,msgpack}/*.cpp itself with -DBITSERIALIZER_VERIF (Makefile); nothing is taken from /repo/_build",
            "baseline_off_cmd": "cmake --build /repo/_build && ctest --test-dir /repo/_build -j8 --timeout 900",
            "source_commits": hooks,
            "add_only": True,
        },
        "engines": [{"name": "simcheck", "path": "/verif/driver/simcheck.py", "serves_properties": sorted(CLAIMED), "kind_free_text": "seeded deterministic simulator (C++ worker build/<flavour>/simcheck: choice lanes, simulated streambuf/allocator/scheduler) + python orchestration (worker pool, gate, delta-debugging minimiser, replay, evidence)"}],
        "checks": checks,
        "not_applicable": na,
        "notes": "See DESIGN.md. VERIF_SEED selects the batch seed; every violation is gated by two fresh-process replays and minimised before it is printed; known findings live in known_findings.json.",
    }
    json.dump(m, open("/verif/MANIFEST.json", "w"), indent=1)

if __name__ == "__main__":
    main()
