// Seeded thread scheduler. Compiled without sanitizers: the hand-off uses raw futex system calls and plain atomics, so
// ThreadSanitizer sees no synchronisation between the scheduled threads although exactly one of them runs at a time.
#include "simsched.h"
#include "sim.h"
#include <atomic>
#include <climits>
#include <linux/futex.h>
#include <pthread.h>
#include <sys/syscall.h>
#include <unistd.h>
#include <cstdio>
#include <cstdlib>

extern "C" void __sanitizer_symbolize_pc(void* pc, const char* fmt, char* out_buf, size_t out_buf_size);

namespace sim {

bool g_sched_on = false;

namespace {

constexpr int kMaxThreads = 16;

struct Slot
{
	std::atomic<int> go{ 0 };
	bool done = false;
	pthread_t th{};
};

Slot g_slots[kMaxThreads];
std::atomic<int> g_main_go{ 0 };
const SchedPlan* g_plan = nullptr;
SchedTask g_task = nullptr;
void* g_arg = nullptr;
uint32_t g_cur = 0;
uint64_t g_steps = 0;
uint64_t g_next_switch_at = 0;
uint32_t g_sw_idx = 0;
uint32_t g_exit_idx = 0;
uint64_t g_switches = 0;
uint64_t g_switch_hash = 0;
thread_local int t_index = -1;
thread_local int t_no_preempt = 0;

void futex_wait(std::atomic<int>* w)
{
	while (w->load(std::memory_order_acquire) == 0)
	{
		syscall(SYS_futex, reinterpret_cast<int*>(w), FUTEX_WAIT_PRIVATE, 0, nullptr, nullptr, 0);
	}
	w->store(0, std::memory_order_relaxed);
}

void futex_wake(std::atomic<int>* w)
{
	w->store(1, std::memory_order_release);
	syscall(SYS_futex, reinterpret_cast<int*>(w), FUTEX_WAKE_PRIVATE, 1, nullptr, nullptr, 0);
}

int runnable_others(int me, int* out)
{
	int n = 0;
	for (uint32_t i = 0; i < g_plan->nThreads; ++i)
	{
		if (static_cast<int>(i) != me && !g_slots[i].done) out[n++] = static_cast<int>(i);
	}
	return n;
}

void note_switch(int from, int to, uint32_t id)
{
	if (getenv("SIM_SWLOG")) fprintf(stderr, "SW %d %d %u %llu\n", from, to, id, (unsigned long long)g_steps);
	++g_switches;
	// identity of a switch = who, to whom, after how many yield points (the guard number of the interrupted block is not used:
	// which of two equivalent blocks of one source line runs can differ between processes)
	(void)id;
	uint64_t rec[3] = { static_cast<uint64_t>(from), static_cast<uint64_t>(to), g_steps };
	g_switch_hash = fnv1a(rec, sizeof rec, g_switch_hash);
}

void* thread_main(void* p)
{
	const int me = static_cast<int>(reinterpret_cast<intptr_t>(p));
	t_index = me;
	futex_wait(&g_slots[me].go);
	g_task(g_arg, static_cast<uint32_t>(me));
	// finished: hand over
	t_no_preempt = 1;
	g_slots[me].done = true;
	int others[kMaxThreads];
	const int n = runnable_others(me, others);
	if (n == 0)
	{
		futex_wake(&g_main_go);
	}
	else
	{
		const int to = others[g_plan->onExit[g_exit_idx++ % 64] % static_cast<uint32_t>(n)];
		note_switch(me, to, 0xE417);
		g_cur = static_cast<uint32_t>(to);
		futex_wake(&g_slots[to].go);
	}
	return nullptr;
}

} // namespace

void sched_no_preempt_begin() { ++t_no_preempt; }
void sched_no_preempt_end() { if (t_no_preempt > 0) --t_no_preempt; }

void sched_yield_point(uint32_t id)
{
	if (t_index < 0 || t_no_preempt != 0) return;
	++g_steps;
	static FILE* ylog = getenv("SIM_YLOG") ? fopen(getenv("SIM_YLOG"), "w") : nullptr;
	if (ylog)
	{
		char buf[256] = "";
		if (id != 0xA110C && id != 0x57E4) __sanitizer_symbolize_pc(__builtin_return_address(1), "%f:%l", buf, sizeof buf);
		fprintf(ylog, "%llu t%d %u %s\n", (unsigned long long)g_steps, t_index, id, buf);
	}
	if (g_sw_idx >= g_plan->nSwitches || g_steps < g_next_switch_at) return;

	const uint32_t sw = g_sw_idx++;
	g_next_switch_at = g_sw_idx < g_plan->nSwitches ? g_steps + g_plan->delta[g_sw_idx] : UINT64_MAX;
	int others[kMaxThreads];
	const int me = t_index;
	const int n = runnable_others(me, others);
	if (n == 0) return;
	const int to = others[g_plan->target[sw] % static_cast<uint32_t>(n)];
	note_switch(me, to, id);
	g_cur = static_cast<uint32_t>(to);
	futex_wake(&g_slots[to].go);
	futex_wait(&g_slots[me].go);
}

static uint64_t g_atomic_idx = 0, g_atomic_switches = 0;

void sched_atomic_point()
{
	if (!g_sched_on || t_index < 0 || t_no_preempt != 0 || !g_plan->atomicOn) return;
	++g_steps;
	const uint64_t k = g_atomic_idx++;
	if (!g_plan->atomicSwitch[k % 256]) return;
	int others[kMaxThreads];
	const int me = t_index;
	const int n = runnable_others(me, others);
	if (n == 0) return;
	const int to = others[g_plan->atomicTarget[k % 64] % static_cast<uint32_t>(n)];
	++g_atomic_switches;
	note_switch(me, to, 0xA70);
	g_cur = static_cast<uint32_t>(to);
	futex_wake(&g_slots[to].go);
	futex_wait(&g_slots[me].go);
}

SchedResult sched_run(const SchedPlan& plan, SchedTask task, void* arg)
{
	g_atomic_idx = 0;
	g_atomic_switches = 0;
	SchedResult res;
	if (plan.nThreads == 0 || plan.nThreads > kMaxThreads) return res;
	g_plan = &plan;
	g_task = task;
	g_arg = arg;
	g_steps = 0;
	g_sw_idx = 0;
	g_exit_idx = 0;
	g_switches = 0;
	g_switch_hash = 0xcbf29ce484222325ull;
	g_next_switch_at = plan.nSwitches ? plan.delta[0] : UINT64_MAX;
	g_main_go.store(0);
	for (uint32_t i = 0; i < plan.nThreads; ++i)
	{
		g_slots[i].go.store(0);
		g_slots[i].done = false;
	}
	pthread_attr_t attr;
	pthread_attr_init(&attr);
	pthread_attr_setstacksize(&attr, 8u << 20);
	for (uint32_t i = 0; i < plan.nThreads; ++i)
	{
		pthread_create(&g_slots[i].th, &attr, thread_main, reinterpret_cast<void*>(static_cast<intptr_t>(i)));
	}
	pthread_attr_destroy(&attr);
	g_sched_on = true;
	const uint32_t first = plan.onExit[g_exit_idx++ % 64] % plan.nThreads;
	g_cur = first;
	futex_wake(&g_slots[first].go);
	futex_wait(&g_main_go);
	g_sched_on = false;
	for (uint32_t i = 0; i < plan.nThreads; ++i)
	{
		pthread_join(g_slots[i].th, nullptr);
	}
	res.steps = g_steps;
	res.switches = g_switches;
	res.switchHash = g_switch_hash;
	res.atomicPoints = g_atomic_idx;
	res.atomicSwitches = g_atomic_switches;
	return res;
}

} // namespace sim

// function-local static initialisation must not be preempted while the guard is held
extern "C" int __real___cxa_guard_acquire(void* g);
extern "C" void __real___cxa_guard_release(void* g);
extern "C" void __real___cxa_guard_abort(void* g);

extern "C" int __wrap___cxa_guard_acquire(void* g)
{
	sim::sched_no_preempt_begin();
	const int r = __real___cxa_guard_acquire(g);
	if (r == 0) sim::sched_no_preempt_end();
	return r;
}
extern "C" void __wrap___cxa_guard_release(void* g)
{
	__real___cxa_guard_release(g);
	sim::sched_no_preempt_end();
}
extern "C" void __wrap___cxa_guard_abort(void* g)
{
	__real___cxa_guard_abort(g);
	sim::sched_no_preempt_end();
}

// ------------------------------------------------------------------------------------------------
// tsan flavour: atomic operations of instrumented code are calls into the TSan runtime; wrapped at link time, each becomes a
// scheduling point placed immediately before the operation (the classic "preempt at synchronisation operations" strategy).
// ------------------------------------------------------------------------------------------------
#ifdef SIM_TSAN_ATOMIC_POINTS
#define SIM_WRAP_ATOMIC(N, T) \
	extern "C" T __real___tsan_atomic##N##_load(const volatile T* p, int mo); \
	extern "C" T __wrap___tsan_atomic##N##_load(const volatile T* p, int mo) { sim::sched_atomic_point(); return __real___tsan_atomic##N##_load(p, mo); } \
	extern "C" void __real___tsan_atomic##N##_store(volatile T* p, T v, int mo); \
	extern "C" void __wrap___tsan_atomic##N##_store(volatile T* p, T v, int mo) { sim::sched_atomic_point(); __real___tsan_atomic##N##_store(p, v, mo); } \
	extern "C" T __real___tsan_atomic##N##_exchange(volatile T* p, T v, int mo); \
	extern "C" T __wrap___tsan_atomic##N##_exchange(volatile T* p, T v, int mo) { sim::sched_atomic_point(); return __real___tsan_atomic##N##_exchange(p, v, mo); } \
	extern "C" T __real___tsan_atomic##N##_fetch_add(volatile T* p, T v, int mo); \
	extern "C" T __wrap___tsan_atomic##N##_fetch_add(volatile T* p, T v, int mo) { sim::sched_atomic_point(); return __real___tsan_atomic##N##_fetch_add(p, v, mo); } \
	extern "C" T __real___tsan_atomic##N##_fetch_sub(volatile T* p, T v, int mo); \
	extern "C" T __wrap___tsan_atomic##N##_fetch_sub(volatile T* p, T v, int mo) { sim::sched_atomic_point(); return __real___tsan_atomic##N##_fetch_sub(p, v, mo); } \
	extern "C" int __real___tsan_atomic##N##_compare_exchange_strong(volatile T* p, T* c, T v, int mo, int fmo); \
	extern "C" int __wrap___tsan_atomic##N##_compare_exchange_strong(volatile T* p, T* c, T v, int mo, int fmo) { sim::sched_atomic_point(); return __real___tsan_atomic##N##_compare_exchange_strong(p, c, v, mo, fmo); } \
	extern "C" int __real___tsan_atomic##N##_compare_exchange_weak(volatile T* p, T* c, T v, int mo, int fmo); \
	extern "C" int __wrap___tsan_atomic##N##_compare_exchange_weak(volatile T* p, T* c, T v, int mo, int fmo) { sim::sched_atomic_point(); return __real___tsan_atomic##N##_compare_exchange_weak(p, c, v, mo, fmo); }
SIM_WRAP_ATOMIC(8, char)
SIM_WRAP_ATOMIC(32, int)
SIM_WRAP_ATOMIC(64, long)
#endif
