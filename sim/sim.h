// Deterministic simulation core for the BitSerializer checks.
// Everything a run decides is drawn from a `Source` (a recorded/replayable choice sequence split in lanes);
// everything a run observes at a seam goes to the event log (FNV-1a hash = identity of the execution).
#pragma once
#include <array>
#include <cstdint>
#include <cstdio>
#include <cstring>
#include <string>
#include <vector>
#include <istream>
#include <ostream>
#include <streambuf>
#include <stdexcept>

namespace sim {

// ------------------------------------------------------------------------------------------------
// PRNG
// ------------------------------------------------------------------------------------------------
inline uint64_t splitmix64(uint64_t& s)
{
	uint64_t z = (s += 0x9E3779B97F4A7C15ull);
	z = (z ^ (z >> 30)) * 0xBF58476D1CE4E5B9ull;
	z = (z ^ (z >> 27)) * 0x94D049BB133111EBull;
	return z ^ (z >> 31);
}
inline uint64_t mix64(uint64_t a, uint64_t b)
{
	uint64_t s = a * 0x9E3779B97F4A7C15ull + b + 0x632BE59BD9B4E019ull;
	splitmix64(s);
	return splitmix64(s);
}

// ------------------------------------------------------------------------------------------------
// Choice source: one lane per concern so that shrinking one concern does not shift the others.
// In random mode each lane has its own PRNG derived from the run seed; in replay mode the lanes come
// from a replay file; a lane that runs dry yields 0 (the simplest choice) and values are taken modulo the
// requested range, so deleting choices never produces an invalid plan.
// ------------------------------------------------------------------------------------------------
enum Lane : int { L_CFG = 0, L_DOC, L_PROG, L_FAULT, L_IO, L_SCHED, L_COUNT };
static const char* const LaneNames[L_COUNT] = { "cfg", "doc", "prog", "fault", "io", "sched" };

class Source
{
public:
	Source() = default;
	explicit Source(uint64_t runSeed) { Seed(runSeed); }

	void Seed(uint64_t runSeed)
	{
		replaying = false;
		for (int l = 0; l < L_COUNT; ++l) { rng[l] = mix64(runSeed, 0x1000 + l); in[l].clear(); out[l].clear(); pos[l] = 0; }
	}
	void Replay(const std::array<std::vector<uint32_t>, L_COUNT>& lanes)
	{
		replaying = true;
		in = lanes;
		for (int l = 0; l < L_COUNT; ++l) { out[l].clear(); pos[l] = 0; }
	}

	// uniform in [0, n), n >= 1
	uint32_t draw(Lane l, uint32_t n)
	{
		if (n <= 1) return 0;
		const uint32_t raw = replaying ? (pos[l] < in[l].size() ? in[l][pos[l]] : 0) : static_cast<uint32_t>(splitmix64(rng[l]) >> 32);
		++pos[l];
		const uint32_t v = raw % n;
		out[l].push_back(v);
		return v;
	}
	// true with probability num/den; choice 0 means false (the simple outcome)
	bool chance(Lane l, uint32_t num, uint32_t den) { return draw(l, den) >= den - num; }
	// integer in [lo, hi], choice 0 -> lo
	int64_t range(Lane l, int64_t lo, int64_t hi) { return lo + static_cast<int64_t>(draw(l, static_cast<uint32_t>(hi - lo + 1))); }
	template <class T, size_t N> const T& pick(Lane l, const T(&arr)[N]) { return arr[draw(l, N)]; }

	// the first `count` raw 32-bit choices of a lane for this seed (replaying them reproduces the random run)
	static std::vector<uint32_t> RawLane(uint64_t runSeed, int lane, size_t count)
	{
		uint64_t r = mix64(runSeed, 0x1000 + lane);
		std::vector<uint32_t> v(count);
		for (auto& x : v) x = static_cast<uint32_t>(splitmix64(r) >> 32);
		return v;
	}

	bool replaying = false;
	std::array<std::vector<uint32_t>, L_COUNT> in;
	std::array<std::vector<uint32_t>, L_COUNT> out;
	size_t pos[L_COUNT] = {};
	uint64_t rng[L_COUNT] = {};
};

// ------------------------------------------------------------------------------------------------
// Runtime (defined in runtime.cpp, which is compiled without coverage instrumentation)
// ------------------------------------------------------------------------------------------------
// Event kinds (small fixed vocabulary; never an address, never a time)
enum Ev : uint32_t
{
	EV_R_UNDERFLOW = 1, EV_R_EOF, EV_R_SEEK_OK, EV_R_SEEK_FAIL, EV_R_FAIL, EV_R_THROW, EV_R_TELL,
	EV_W_OVERFLOW, EV_W_XSPUTN, EV_W_SYNC, EV_W_FAIL, EV_W_THROW,
	EV_A_FAIL, EV_A_REFUSED,
	EV_O_OK, EV_O_EXC, EV_O_VALUE, EV_O_NOTE,
	EV_S_SWITCH,
	EV_P_PROBE,
};

struct AllocState
{
	bool armed = false;
	uint64_t ordinal = 0;       // allocations since armed
	uint64_t failAt = 0;        // 1-based ordinal that throws bad_alloc, 0 = never
	bool failFired = false;
	int64_t live = 0;           // live blocks allocated while armed
	int64_t liveBytes = 0;
	int64_t peakBytes = 0;
	uint64_t refused = 0;       // requests above the single-request cap
	uint64_t total = 0;
};

AllocState& alloc();
void alloc_arm(uint64_t failAt = 0);
void alloc_disarm();

void steps_begin(uint64_t budget);   // resets the per-thread basic-block clock
uint64_t steps_now();
void steps_end();
uint64_t cov_reached();
uint64_t cov_total();

void ev(uint32_t kind, uint64_t a = 0, uint64_t b = 0);
void ev_reset(bool keepTrace);
uint64_t ev_hash();
uint64_t ev_count();
uint64_t ev_kind_count(uint32_t kind);
std::string ev_trace();               // textual trace (only when keepTrace)
uint64_t stream_calls();
void stream_call_budget(uint64_t budget);

void install_fatal_handlers(const char* flavour);
void set_run_label(const char* label);  // printed by the fatal handlers
[[noreturn]] void fatal_exit(const char* cls, const char* detail, int code);

// probes: named "this rare condition was hit" counters
void probe(const char* name);
const std::vector<std::pair<std::string, uint64_t>>& probes();

struct AllocArm
{
	explicit AllocArm(uint64_t failAt = 0) { alloc_arm(failAt); }
	~AllocArm() { alloc_disarm(); }
	AllocArm(const AllocArm&) = delete;
	AllocArm& operator=(const AllocArm&) = delete;
};

// ------------------------------------------------------------------------------------------------
// Simulated input file/pipe under a real std::istream
// ------------------------------------------------------------------------------------------------
struct InFaults
{
	size_t eofAt = SIZE_MAX;    // file ends at this byte
	size_t failAt = SIZE_MAX;   // device error at this byte: underflow throws ios_base::failure
};

class SimIStreamBuf final : public std::streambuf
{
public:
	static constexpr size_t putback_window = 16;

	// `data` must outlive the buffer; `delivery` = cyclic list of bytes revealed per underflow (0 = everything)
	SimIStreamBuf(const std::string& data, bool seekable, std::vector<uint32_t> delivery, InFaults faults = {})
		: mData(data), mSeekable(seekable), mDelivery(std::move(delivery)), mFaults(faults)
	{
		if (mDelivery.empty()) mDelivery.push_back(0);
		mSize = std::min(mData.size(), mFaults.eofAt);
		SetArea(0, 0);
	}

	size_t Position() const { return mWinStart + static_cast<size_t>(gptr() - eback()) + mBeyond; }
	// stringbuf semantics: a seek beyond the end fails (filebuf semantics: it succeeds and the next read hits EOF)
	void SetSeekBeyondFails(bool v) { mSeekBeyondFails = v; }
	bool FaultFired() const { return mFaultFired; }
	bool ReachedEof() const { return mEofSeen; }

protected:
	int_type underflow() override
	{
		if (gptr() < egptr()) return traits_type::to_int_type(*gptr());
		const size_t pos = Position();
		if (pos >= mFaults.failAt)
		{
			mFaultFired = true;
			ev(EV_R_FAIL, pos);
			throw std::ios_base::failure("simulated device error");
		}
		if (pos >= mSize)
		{
			mEofSeen = true;
			ev(EV_R_EOF, pos);
			if (mFaults.eofAt != SIZE_MAX && mFaults.eofAt < mData.size()) mFaultFired = true;
			return traits_type::eof();
		}
		uint32_t n = mDelivery[mDeliveryIdx++ % mDelivery.size()];
		size_t avail = std::min(mSize, mFaults.failAt) - pos;
		size_t reveal = (n == 0) ? avail : std::min<size_t>(n, avail);
		ev(EV_R_UNDERFLOW, reveal);
		SetArea(pos, pos + reveal);
		return traits_type::to_int_type(*gptr());
	}

	pos_type seekoff(off_type off, std::ios_base::seekdir dir, std::ios_base::openmode) override
	{
		if (off == 0 && dir == std::ios_base::cur)
		{
			ev(EV_R_TELL, mSeekable);
			return mSeekable ? pos_type(static_cast<off_type>(Position())) : pos_type(off_type(-1));
		}
		if (!mSeekable) { ev(EV_R_SEEK_FAIL); return pos_type(off_type(-1)); }
		off_type base = dir == std::ios_base::beg ? 0 : dir == std::ios_base::cur ? static_cast<off_type>(Position()) : static_cast<off_type>(mSize);
		off_type target = base + off;
		// a regular file lets you seek past the end; reads there hit EOF
		if (target < 0 || (mSeekBeyondFails && static_cast<size_t>(target) > mSize)) { ev(EV_R_SEEK_FAIL); return pos_type(off_type(-1)); }
		ev(EV_R_SEEK_OK, static_cast<uint64_t>(target) < Position() ? 1 : 2);
		const size_t p = static_cast<size_t>(target);
		const size_t phys = std::min(p, mSize);
		SetArea(phys, phys);
		mBeyond = p - phys;
		return pos_type(target);
	}

	pos_type seekpos(pos_type pos, std::ios_base::openmode which) override
	{
		return seekoff(off_type(pos), std::ios_base::beg, which);
	}

private:
	void SetArea(size_t pos, size_t end)
	{
		const size_t start = pos > putback_window ? pos - putback_window : 0;
		char* base = const_cast<char*>(mData.data());
		mWinStart = start;
		mBeyond = 0;
		setg(base + start, base + pos, base + end);
	}

	const std::string& mData;
	bool mSeekable;
	std::vector<uint32_t> mDelivery;
	InFaults mFaults;
	size_t mSize = 0;
	size_t mDeliveryIdx = 0;
	size_t mWinStart = 0;
	size_t mBeyond = 0;      // logical position beyond the physical end (after a seek past EOF)
	bool mSeekBeyondFails = false;
	bool mFaultFired = false;
	bool mEofSeen = false;
};

// ------------------------------------------------------------------------------------------------
// Simulated output file under a real std::ostream
// ------------------------------------------------------------------------------------------------
struct OutFaults
{
	size_t failAt = SIZE_MAX;    // device accepts bytes [0, failAt) and then fails
	bool throwing = false;       // failure is reported by throwing ios_base::failure (else by return value)
};

class SimOStreamBuf final : public std::streambuf
{
public:
	SimOStreamBuf(std::string& file, size_t bufSize, OutFaults faults = {})
		: mFile(file), mBuf(bufSize), mFaults(faults)
	{
		if (!mBuf.empty()) setp(mBuf.data(), mBuf.data() + mBuf.size());
	}
	~SimOStreamBuf() override { }

	bool FaultFired() const { return mFaultFired; }
	bool Flush() { return FlushArea(); }

protected:
	int_type overflow(int_type ch) override
	{
		ev(EV_W_OVERFLOW);
		if (!FlushArea()) return traits_type::eof();
		if (traits_type::eq_int_type(ch, traits_type::eof())) return traits_type::not_eof(ch);
		if (!mBuf.empty()) { *pptr() = traits_type::to_char_type(ch); pbump(1); return ch; }
		char c = traits_type::to_char_type(ch);
		return Device(&c, 1) == 1 ? ch : traits_type::eof();
	}

	std::streamsize xsputn(const char* s, std::streamsize n) override
	{
		ev(EV_W_XSPUTN, static_cast<uint64_t>(n > 64 ? 64 : n));
		if (mBuf.empty()) return static_cast<std::streamsize>(Device(s, static_cast<size_t>(n)));
		std::streamsize done = 0;
		while (done < n)
		{
			std::streamsize room = epptr() - pptr();
			if (room == 0) { if (!FlushArea()) return done; room = epptr() - pptr(); }
			std::streamsize k = std::min(room, n - done);
			std::memcpy(pptr(), s + done, static_cast<size_t>(k));
			pbump(static_cast<int>(k));
			done += k;
		}
		return done;
	}

	int sync() override
	{
		ev(EV_W_SYNC);
		return FlushArea() ? 0 : -1;
	}

private:
	bool FlushArea()
	{
		if (mBuf.empty()) return true;
		size_t n = static_cast<size_t>(pptr() - pbase());
		size_t w = Device(pbase(), n);
		setp(mBuf.data(), mBuf.data() + mBuf.size());
		return w == n;
	}
	size_t Device(const char* s, size_t n)
	{
		size_t room = mFaults.failAt == SIZE_MAX ? n : (mFile.size() >= mFaults.failAt ? 0 : std::min(n, mFaults.failAt - mFile.size()));
		mFile.append(s, room);
		if (room < n)
		{
			mFaultFired = true;
			if (mFaults.throwing) { ev(EV_W_THROW); throw std::ios_base::failure("simulated device error"); }
			ev(EV_W_FAIL);
		}
		return room;
	}

	std::string& mFile;
	std::vector<char> mBuf;
	OutFaults mFaults;
	bool mFaultFired = false;
};

// ------------------------------------------------------------------------------------------------
// helpers
// ------------------------------------------------------------------------------------------------
inline uint64_t fnv1a(const void* data, size_t n, uint64_t h = 0xcbf29ce484222325ull)
{
	const unsigned char* p = static_cast<const unsigned char*>(data);
	for (size_t i = 0; i < n; ++i) { h ^= p[i]; h *= 0x100000001b3ull; }
	return h;
}
inline uint64_t fnv1a(const std::string& s, uint64_t h = 0xcbf29ce484222325ull) { return fnv1a(s.data(), s.size(), h); }

inline std::string hex(const std::string& s, size_t maxBytes = 256)
{
	static const char* d = "0123456789abcdef";
	std::string r;
	for (size_t i = 0; i < s.size() && i < maxBytes; ++i) { r.push_back(d[(unsigned char)s[i] >> 4]); r.push_back(d[(unsigned char)s[i] & 15]); }
	if (s.size() > maxBytes) r += "...(" + std::to_string(s.size()) + " bytes)";
	return r;
}

} // namespace sim
