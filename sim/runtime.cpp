// Simulator runtime: basic-block step clock (trace-pc-guard callbacks), allocator front, event log, fatal handlers.
// Compiled WITHOUT -fsanitize-coverage (it defines the callbacks) but with the flavour's sanitizer.
#include "sim.h"
#include "simsched.h"
#include <atomic>
#include <csignal>
#include <cstdlib>
#include <cxxabi.h>
#include <execinfo.h>
#include <malloc.h>
#include <new>
#include <typeinfo>
#include <unistd.h>
#include <exception>

extern "C" void __sanitizer_symbolize_pc(void* pc, const char* fmt, char* out_buf, size_t out_buf_size);
extern "C" void __sanitizer_set_death_callback(void (*callback)(void));

namespace sim {

// ------------------------------------------------------------------------------------------------
// step clock + coverage bitmap
// ------------------------------------------------------------------------------------------------
static thread_local uint64_t t_steps = 0;
static thread_local uint64_t t_budget = UINT64_MAX;
static thread_local bool t_clock_on = false;
static unsigned char* g_cov_map = nullptr;
static uint32_t g_cov_n = 0;
static char g_label[256] = "";
static void (*g_stats_dump)() = nullptr;
static const size_t* g_lane_pos = nullptr;

static void print_lane_pos()
{
	if (!g_lane_pos) return;
	fprintf(stderr, "LANEPOS");
	for (int l = 0; l < L_COUNT; ++l) fprintf(stderr, " %s=%zu", LaneNames[l], g_lane_pos[l]);
	fprintf(stderr, "\n");
	fflush(stderr);
}

// The callers state the budget as "3000 basic blocks per byte of input (+4 KiB)", which is what one pass costs at most. A stream
// that delivers 1-3 bytes per call while the program asks for members out of order (every request = one backward seek = one chunk
// re-read) legitimately costs a multiple of that: the clock therefore allows 32 passes. An endless loop exceeds any multiple.
static const uint64_t kPasses = 32;
void steps_begin(uint64_t budget) { t_steps = 0; t_budget = budget > UINT64_MAX / kPasses ? UINT64_MAX : budget * kPasses; t_clock_on = true; }
uint64_t steps_now() { return t_steps; }
void steps_end() { t_clock_on = false; t_budget = UINT64_MAX; }
uint64_t cov_total() { return g_cov_n; }
uint64_t cov_reached()
{
	uint64_t n = 0;
	for (uint32_t i = 1; i <= g_cov_n; ++i) n += g_cov_map[i];
	return n;
}

static void first_library_frame(char* out, size_t outSize)
{
	void* frames[64];
	int n = backtrace(frames, 64);
	out[0] = 0;
	char last[512] = "";
	for (int i = 0; i < n; ++i)
	{
		char buf[512];
		buf[0] = 0;
		__sanitizer_symbolize_pc(frames[i], "%f", buf, sizeof buf);
		if (strstr(buf, "BitSerializer") && !strstr(buf, "sim::") )
		{
			// strip template arguments and parameters to keep the site stable
			size_t k = 0;
			int depth = 0;
			for (const char* p = buf; *p && k + 1 < outSize; ++p)
			{
				if (*p == '<') { ++depth; continue; }
				if (*p == '>') { if (depth) --depth; continue; }
				if (depth) continue;
				if (*p == '(' && k > 0 && strncmp(p, "(anonymous", 10) != 0) break;
				if (*p == ' ') continue;
				out[k++] = *p;
			}
			out[k] = 0;
			if (k) return;
		}
		if (buf[0]) { strncpy(last, buf, sizeof last - 1); }
	}
	snprintf(out, outSize, "?");
}

[[noreturn]] void fatal_exit(const char* cls, const char* detail, int code)
{
	g_sched_on = false;
	t_clock_on = false;
	char site[512];
	first_library_frame(site, sizeof site);
	fprintf(stderr, "\nFATAL %s site=%s detail=%s run=%s\n", cls, site, detail ? detail : "", g_label);
	fflush(stderr);
	print_lane_pos();
	if (g_stats_dump) g_stats_dump();
	fflush(stdout);
	_exit(code);
}

void set_run_label(const char* label) { strncpy(g_label, label, sizeof g_label - 1); g_label[sizeof g_label - 1] = 0; }
void set_stats_dump(void (*fn)()) { g_stats_dump = fn; }
void set_lane_positions(const size_t* pos) { g_lane_pos = pos; }

// ------------------------------------------------------------------------------------------------
// allocator front
// ------------------------------------------------------------------------------------------------
static thread_local AllocState t_alloc;
static constexpr size_t kSingleRequestCap = 256u << 20;

AllocState& alloc() { return t_alloc; }
void alloc_arm(uint64_t failAt)
{
	t_alloc = AllocState{};
	t_alloc.armed = true;
	t_alloc.failAt = failAt;
}
void alloc_disarm() { t_alloc.armed = false; }

static inline void* sim_alloc(size_t size, size_t align, bool nothrow)
{
	AllocState& a = t_alloc;
	if (a.armed)
	{
		sched_point(0xA110C);
		++a.ordinal;
		++a.total;
		if (size > kSingleRequestCap)
		{
			++a.refused;
			ev(EV_A_REFUSED, a.ordinal);
			if (nothrow) return nullptr;
			throw std::bad_alloc();
		}
		if (a.failAt != 0 && a.ordinal == a.failAt)
		{
			ev(EV_A_FAIL, a.ordinal);
			// a failed nothrow request is an answer the caller asked for (std::stable_sort's buffer, ...), not a fault that must surface
			if (nothrow) return nullptr;
			a.failFired = true;
			throw std::bad_alloc();
		}
	}
	void* p = nullptr;
	if (align > alignof(std::max_align_t))
	{
		if (posix_memalign(&p, align, size ? size : 1) != 0) p = nullptr;
	}
	else
	{
		p = std::malloc(size ? size : 1);
	}
	if (!p)
	{
		if (nothrow) return nullptr;
		throw std::bad_alloc();
	}
	if (a.armed)
	{
		++a.live;
		a.liveBytes += static_cast<int64_t>(malloc_usable_size(p));
		if (a.liveBytes > a.peakBytes) a.peakBytes = a.liveBytes;
	}
	return p;
}

static inline void sim_free(void* p)
{
	if (!p) return;
	AllocState& a = t_alloc;
	if (a.armed)
	{
		--a.live;
		a.liveBytes -= static_cast<int64_t>(malloc_usable_size(p));
	}
	std::free(p);
}

// ------------------------------------------------------------------------------------------------
// event log
// ------------------------------------------------------------------------------------------------
static uint64_t g_ev_hash = 0xcbf29ce484222325ull;
static uint64_t g_ev_count = 0;
static uint64_t g_ev_kinds[32] = {};
static bool g_ev_keep = false;
struct EvRec { uint32_t kind; uint64_t a, b; };
static EvRec g_ev_trace[512];
static uint32_t g_ev_trace_n = 0;
static uint64_t g_stream_calls = 0;
static uint64_t g_stream_budget = UINT64_MAX;

void ev_reset(bool keepTrace)
{
	g_ev_hash = 0xcbf29ce484222325ull;
	g_ev_count = 0;
	memset(g_ev_kinds, 0, sizeof g_ev_kinds);
	g_ev_keep = keepTrace;
	g_ev_trace_n = 0;
	g_stream_calls = 0;
}
void stream_call_budget(uint64_t b) { g_stream_budget = b > UINT64_MAX / kPasses ? UINT64_MAX : b * kPasses; }
uint64_t stream_calls() { return g_stream_calls; }

static FILE* g_ev_debug = nullptr;
static bool g_ev_debug_checked = false;

void ev(uint32_t kind, uint64_t a, uint64_t b)
{
	if (!g_ev_debug_checked) { g_ev_debug_checked = true; if (const char* p = getenv("SIM_EVLOG")) g_ev_debug = fopen(p, "w"); }
	if (g_ev_debug) fprintf(g_ev_debug, "%u %llu %llu\n", kind, (unsigned long long)a, (unsigned long long)b);
	uint64_t rec[3] = { kind, a, b };
	g_ev_hash = fnv1a(rec, sizeof rec, g_ev_hash);
	++g_ev_count;
	if (kind < 32) ++g_ev_kinds[kind];
	if (g_ev_keep && g_ev_trace_n < 512) g_ev_trace[g_ev_trace_n++] = EvRec{ kind, a, b };
	if (kind >= EV_R_UNDERFLOW && kind <= EV_W_THROW)
	{
		if (++g_stream_calls > g_stream_budget) fatal_exit("HANG", "stream-call budget exceeded", 72);
		sched_point(0x57E4);
	}
}
uint64_t ev_hash() { return g_ev_hash; }
uint64_t ev_count() { return g_ev_count; }
uint64_t ev_kind_count(uint32_t kind) { return kind < 32 ? g_ev_kinds[kind] : 0; }

static const char* ev_name(uint32_t k)
{
	switch (k)
	{
	case EV_R_UNDERFLOW: return "R.underflow"; case EV_R_EOF: return "R.eof"; case EV_R_SEEK_OK: return "R.seek";
	case EV_R_SEEK_FAIL: return "R.seek-fail"; case EV_R_FAIL: return "R.fail"; case EV_R_THROW: return "R.throw"; case EV_R_TELL: return "R.tell";
	case EV_W_OVERFLOW: return "W.overflow"; case EV_W_XSPUTN: return "W.xsputn"; case EV_W_SYNC: return "W.sync";
	case EV_W_FAIL: return "W.fail"; case EV_W_THROW: return "W.throw"; case EV_A_FAIL: return "A.fail"; case EV_A_REFUSED: return "A.refused";
	case EV_O_OK: return "O.ok"; case EV_O_EXC: return "O.exc"; case EV_O_VALUE: return "O.value"; case EV_O_NOTE: return "O.note";
	case EV_S_SWITCH: return "S.switch"; case EV_P_PROBE: return "P.probe";
	default: return "?";
	}
}

std::string ev_trace()
{
	std::string r;
	for (uint32_t i = 0; i < g_ev_trace_n; ++i)
	{
		char buf[96];
		snprintf(buf, sizeof buf, "%s(%llu,%llu) ", ev_name(g_ev_trace[i].kind), (unsigned long long)g_ev_trace[i].a, (unsigned long long)g_ev_trace[i].b);
		r += buf;
	}
	if (g_ev_count > g_ev_trace_n) r += "... (" + std::to_string(g_ev_count) + " events)";
	return r;
}

// ------------------------------------------------------------------------------------------------
// probes
// ------------------------------------------------------------------------------------------------
static std::vector<std::pair<std::string, uint64_t>> g_probes;
void probe(const char* name)
{
	for (auto& p : g_probes) if (p.first == name) { ++p.second; return; }
	g_probes.emplace_back(name, 1);
}
const std::vector<std::pair<std::string, uint64_t>>& probes() { return g_probes; }

// ------------------------------------------------------------------------------------------------
// fatal handlers
// ------------------------------------------------------------------------------------------------
static void on_terminate()
{
	char detail[512] = "no-exception";
	if (std::type_info* t = abi::__cxa_current_exception_type())
	{
		int status = 0;
		char* dem = abi::__cxa_demangle(t->name(), nullptr, nullptr, &status);
		snprintf(detail, sizeof detail, "exc=%s", dem ? dem : t->name());
		try { throw; }
		catch (const std::exception& e) { size_t l = strlen(detail); snprintf(detail + l, sizeof detail - l, " what=%.200s", e.what()); }
		catch (...) {}
	}
	fatal_exit("TERMINATE", detail, 70);
}

static void on_signal(int sig)
{
	char detail[64];
	snprintf(detail, sizeof detail, "signal=%d", sig);
	fatal_exit(sig == SIGABRT ? "ABORT" : "SIGNAL", detail, 71);
}

static void on_sanitizer_death()
{
	// the dying thread must not be preempted any more (the sanitizer holds its locks while it reports)
	g_sched_on = false;
	t_clock_on = false;
	fprintf(stderr, "\nFATAL SANITIZER run=%s\n", g_label);
	print_lane_pos();
#ifndef SIM_NO_NEW_REPLACEMENT
	// (not in the tsan flavour: instrumented code called from ThreadSanitizer's death callback deadlocks inside its runtime)
	if (g_stats_dump) g_stats_dump();
#endif
	fflush(stdout);
}

void install_fatal_handlers(const char*)
{
	std::set_terminate(on_terminate);
	static char altstack[1 << 16];
	stack_t ss{};
	ss.ss_sp = altstack; ss.ss_size = sizeof altstack;
	sigaltstack(&ss, nullptr);
	struct sigaction sa{};
	sa.sa_handler = on_signal;
	sa.sa_flags = SA_ONSTACK;
	sigaction(SIGABRT, &sa, nullptr);
	sigaction(SIGFPE, &sa, nullptr);
	__sanitizer_set_death_callback(on_sanitizer_death);
}

} // namespace sim

// ------------------------------------------------------------------------------------------------
// coverage callbacks = step clock, hang detector and preemption point
// ------------------------------------------------------------------------------------------------
extern "C" void __sanitizer_cov_trace_pc_guard_init(uint32_t* start, uint32_t* stop)
{
	using namespace sim;
	if (start == stop || *start) return;
	size_t n = static_cast<size_t>(stop - start);
	size_t old = g_cov_n;
	unsigned char* m = static_cast<unsigned char*>(std::calloc(old + n + 1, 1));
	if (g_cov_map) { memcpy(m, g_cov_map, old + 1); std::free(g_cov_map); }
	g_cov_map = m;
	for (uint32_t* x = start; x < stop; ++x) *x = ++g_cov_n;
}

extern "C" void __sanitizer_cov_trace_pc_guard(uint32_t* guard)
{
	using namespace sim;
	if (!t_clock_on) return;
	g_cov_map[*guard] = 1;
	if (++t_steps > t_budget)
	{
		t_clock_on = false;
		fatal_exit("HANG", "basic-block budget exceeded", 72);
	}
	sched_point(*guard);
}

// ------------------------------------------------------------------------------------------------
// replaced global allocation functions
// ------------------------------------------------------------------------------------------------
// ThreadSanitizer's runtime defines these strongly; the tsan flavour therefore keeps its allocator (no allocation faults there)
#ifndef SIM_NO_NEW_REPLACEMENT
void* operator new(size_t n) { return sim::sim_alloc(n, 0, false); }
void* operator new[](size_t n) { return sim::sim_alloc(n, 0, false); }
void* operator new(size_t n, const std::nothrow_t&) noexcept { try { return sim::sim_alloc(n, 0, true); } catch (...) { return nullptr; } }
void* operator new[](size_t n, const std::nothrow_t&) noexcept { try { return sim::sim_alloc(n, 0, true); } catch (...) { return nullptr; } }
void* operator new(size_t n, std::align_val_t a) { return sim::sim_alloc(n, static_cast<size_t>(a), false); }
void* operator new[](size_t n, std::align_val_t a) { return sim::sim_alloc(n, static_cast<size_t>(a), false); }
void* operator new(size_t n, std::align_val_t a, const std::nothrow_t&) noexcept { try { return sim::sim_alloc(n, static_cast<size_t>(a), true); } catch (...) { return nullptr; } }
void* operator new[](size_t n, std::align_val_t a, const std::nothrow_t&) noexcept { try { return sim::sim_alloc(n, static_cast<size_t>(a), true); } catch (...) { return nullptr; } }
void operator delete(void* p) noexcept { sim::sim_free(p); }
void operator delete[](void* p) noexcept { sim::sim_free(p); }
void operator delete(void* p, size_t) noexcept { sim::sim_free(p); }
void operator delete[](void* p, size_t) noexcept { sim::sim_free(p); }
void operator delete(void* p, std::align_val_t) noexcept { sim::sim_free(p); }
void operator delete[](void* p, std::align_val_t) noexcept { sim::sim_free(p); }
void operator delete(void* p, size_t, std::align_val_t) noexcept { sim::sim_free(p); }
void operator delete[](void* p, size_t, std::align_val_t) noexcept { sim::sim_free(p); }
void operator delete(void* p, const std::nothrow_t&) noexcept { sim::sim_free(p); }
void operator delete[](void* p, const std::nothrow_t&) noexcept { sim::sim_free(p); }
#endif

// sanitizer defaults (non-inline, used)
extern "C" __attribute__((used)) const char* __asan_default_options()
{
	return "exitcode=77:detect_leaks=0:abort_on_error=0:handle_abort=0:allocator_may_return_null=1:detect_stack_use_after_return=0:symbolize=1:print_summary=1:new_delete_type_mismatch=0:alloc_dealloc_mismatch=0";
}
extern "C" __attribute__((used)) const char* __ubsan_default_options()
{
	return "print_stacktrace=1:halt_on_error=1:exitcode=77:print_summary=1";
}
extern "C" __attribute__((used)) const char* __tsan_default_options()
{
	return "exitcode=78:halt_on_error=1:report_signal_unsafe=0:second_deadlock_stack=1";
}
