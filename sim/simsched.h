// Seeded thread scheduler: real threads, exactly one runs at a time, the plan decides who.
// Implemented in sched.cpp, which is compiled WITHOUT any sanitizer so that ThreadSanitizer cannot see the hand-off.
#pragma once
#include <cstdint>
#include <cstddef>

namespace sim {

extern bool g_sched_on;
void sched_yield_point(uint32_t id);
inline void sched_point(uint32_t id) { if (g_sched_on) sched_yield_point(id); }

struct SchedPlan
{
	static constexpr size_t max_switches = 4096;
	uint32_t nThreads = 0;
	uint32_t nSwitches = 0;
	uint32_t delta[max_switches];      // steps to run before the i-th switch
	uint32_t target[max_switches];     // choice of the thread to switch to (modulo runnable others)
	uint32_t onExit[64];               // choice of the next thread when a thread finishes (cyclic)
	// tsan flavour only: every atomic operation of instrumented code is a scheduling point of its own (the calls into the TSan
	// runtime are wrapped at link time); bit k%256 says whether the k-th atomic operation of the run is preceded by a switch
	bool atomicOn = false;
	uint8_t atomicSwitch[256];
	uint32_t atomicTarget[64];
};

struct SchedResult
{
	uint64_t steps = 0;
	uint64_t switches = 0;
	uint64_t switchHash = 0;   // FNV-1a over (from, to, yield-point id)
	uint64_t atomicPoints = 0;     // atomic operations seen while scheduling (0 in the asan flavour: they are inline instructions there)
	uint64_t atomicSwitches = 0;
	bool deadlock = false;
};

using SchedTask = void (*)(void* arg, uint32_t threadIndex);

// Runs nThreads real threads, each executing task(arg, i), under the plan. Returns when all have finished.
SchedResult sched_run(const SchedPlan& plan, SchedTask task, void* arg);

// Non-preemptible section (function-local static initialisation is wrapped with it at link time)
void sched_no_preempt_begin();
void sched_no_preempt_end();
void sched_atomic_point();

} // namespace sim
