#!/usr/bin/env python3
"""Renders selftest/mutation_matrix.json as a markdown table (pasted into DESIGN.md section 10.1)."""
import json, os
V = os.path.dirname(os.path.dirname(os.path.abspath(__file__)))
m = json.load(open(os.path.join(V, "selftest", "mutation_matrix.json")))
print("| breaking change | breaks | needs to manifest | detected by (class of the first violation) | missed by |")
print("|---|---|---|---|---|")
for name in sorted(m):
    e = m[name]
    det, miss = [], []
    for p, r in sorted(e["results"].items()):
        if r["exit"] == 1:
            v = r["violations"][0] if r["violations"] else {"cls": "?"}
            det.append("%s (%s)" % (p, v["cls"]))
        elif r["exit"] == 0:
            miss.append(p)
        else:
            miss.append(p + " (exit %d)" % r["exit"])
    meta = {}
    for base in ("seeded", "mutants"):
        mp = os.path.join(V, base, name, "meta.json")
        if os.path.exists(mp):
            meta = json.load(open(mp))
    needs = (meta.get("needs") or "").replace("\n", " ")[:160]
    if not needs and meta.get("needs_to_manifest"):
        txt = meta["needs_to_manifest"]
        needs = " ".join(txt.split())[:200]
    print("| %s | %s | %s | %s | %s |" % (name, e.get("property"), needs.replace("|", "/"), ", ".join(det) or "-", ", ".join(miss) or "-"))
