#!/usr/bin/env python3
"""Confirms a seeded breaking change delivered by an independent agent in its scratch worktree and files it under /verif/seeded.

  confirm_seed.py <worktree> <A|B> <property> <slug>

Steps (all in the scratch worktree, never in /repo): patch applies; library test suite passes with it; demonstration fails with
it; after reverting the demonstration passes. Only then is it copied to /verif/seeded/<property>-<slug>/ with meta.json.
"""
import json, os, shutil, subprocess, sys, time


def sh(cmd, cwd, timeout=3600):
    p = subprocess.run(cmd, shell=True, cwd=cwd, stdout=subprocess.PIPE, stderr=subprocess.STDOUT, text=True, timeout=timeout, errors="replace")
    return p.returncode, p.stdout


def main():
    wt, which, prop, slug = sys.argv[1:5]
    src = os.path.join(wt, "_seeded", which)
    ran = []
    def step(name, cmd, expect_zero):
        rc, out = sh(cmd, wt)
        ok = (rc == 0) == expect_zero
        ran.append({"step": name, "cmd": cmd, "rc": rc, "ok": ok, "tail": out.strip().splitlines()[-3:]})
        print("%-34s rc=%d %s" % (name, rc, "ok" if ok else "UNEXPECTED"), flush=True)
        return ok, out
    sh("git checkout -- .", wt)
    ok = True
    o, _ = step("demo on unchanged library", "bash _seeded/%s/run.sh" % which, True); ok &= o
    o, _ = step("apply patch", "git apply _seeded/%s/patch.diff" % which, True); ok &= o
    o, out = step("test suite with the change", "cmake --build _build 2>&1 | tail -2 && ctest --test-dir _build -j16 2>&1 | grep -E 'tests passed|tests failed'", True); ok &= o
    ok &= "100% tests passed" in out
    o, _ = step("demo with the change", "bash _seeded/%s/run.sh" % which, False); ok &= o
    sh("git checkout -- .", wt)
    o, _ = step("demo after revert", "bash _seeded/%s/run.sh" % which, True); ok &= o
    rc, st = sh("git status --porcelain --untracked-files=no", wt)
    if not ok or st.strip():
        print("NOT CONFIRMED")
        return 1
    dst = os.path.join("/verif/seeded", "%s-%s" % (prop, slug))
    if os.path.exists(dst):
        shutil.rmtree(dst)
    os.makedirs(dst)
    for f in os.listdir(src):
        if os.path.isfile(os.path.join(src, f)) and os.path.getsize(os.path.join(src, f)) < 2000000 and not f.endswith((".o", ".out")) and f not in ("demo", "a.out"):
            shutil.copy(os.path.join(src, f), dst)
    notes = open(os.path.join(src, "notes.md")).read() if os.path.exists(os.path.join(src, "notes.md")) else ""
    meta = {"property": prop, "origin": "independent sub-agent given only the property text and a scratch worktree", "variant": which,
            "needs_to_manifest": notes[:3000], "confirmed_in": wt, "confirmed_at": time.strftime("%Y-%m-%dT%H:%M:%SZ", time.gmtime()), "what_was_run": ran}
    json.dump(meta, open(os.path.join(dst, "meta.json"), "w"), indent=1)
    print("CONFIRMED ->", dst)
    return 0


if __name__ == "__main__":
    sys.exit(main())
