#!/usr/bin/env python3
"""No-false-alarm sweep: every check at many VERIF_SEED values on the unchanged tree; exit codes and violation lines are recorded.

  sweep.py <first-seed> <last-seed> [--fraction F]     (F = fraction of the quick run count, default 0.25)
"""
import json, os, re, subprocess, sys, time
V = os.path.dirname(os.path.dirname(os.path.abspath(__file__)))
sys.path.insert(0, os.path.join(V, "driver"))
import simcheck

def main():
    a, b = int(sys.argv[1]), int(sys.argv[2])
    frac = float(sys.argv[sys.argv.index("--fraction") + 1]) if "--fraction" in sys.argv else 0.25
    path = os.path.join(V, "selftest", "no_false_alarm.json")
    res = json.load(open(path)) if os.path.exists(path) else {"runs": []}
    bad = 0
    for seed in range(a, b + 1):
        for prop, cfg in sorted(simcheck.PROPS.items()):
            n = max(200, int(cfg["quick"] * frac))
            t0 = time.time()
            p = subprocess.run(["python3", os.path.join(V, "driver", "simcheck.py"), "check", prop, "--runs", str(n)], cwd=V, stdout=subprocess.PIPE, stderr=subprocess.STDOUT, text=True,
                               env=dict(os.environ, VERIF_SEED=str(seed), VERIF_EVIDENCE_DIR=os.path.join(V, "out", "sweep-evidence")))
            viol = [l for l in p.stdout.splitlines() if l.startswith(("VIOLATION", "HARNESS-ERROR"))]
            res["runs"].append({"seed": seed, "property": prop, "runs": n, "exit": p.returncode, "seconds": round(time.time() - t0, 1), "alarms": viol})
            print("seed %d %s exit=%d %.0fs %s" % (seed, prop, p.returncode, time.time() - t0, " ".join(viol)[:200]), flush=True)
            bad += p.returncode != 0
            if p.returncode != 0:
                # keep the replay for triage
                for l in viol:
                    m = re.search(r"replay=(\S+)", l)
                    if m and os.path.exists(m.group(1)):
                        subprocess.run(["cp", m.group(1), os.path.join(V, "out", "sweep-%d-%s.replay.json" % (seed, prop))])
            json.dump(res, open(path, "w"), indent=1)
    res["summary"] = {"checks_run": len(res["runs"]), "non_zero_exits": sum(1 for r in res["runs"] if r["exit"] != 0)}
    json.dump(res, open(path, "w"), indent=1)
    return 1 if bad else 0

if __name__ == "__main__":
    sys.exit(main())
