#!/usr/bin/env python3
"""Orchestration for the deterministic-simulation checks (no seeded decision is made here: every choice of a run is
drawn inside the C++ worker from VERIF_SEED; this file builds, dispatches runs to worker processes, gates, minimises
and reports).

  simcheck.py check <PROP> [--tier quick|thorough] [--runs N] [--jobs N]
  simcheck.py replay <replay.json>
  simcheck.py determinism <PROP> [--runs N]
"""
import concurrent.futures as cf
import json
import os
import re
import subprocess
import sys
import tempfile
import time

VERIF = os.path.dirname(os.path.dirname(os.path.abspath(__file__)))
LANES = ["cfg", "doc", "prog", "fault", "io", "sched"]

# property -> settings
PROPS = {
    "C01": dict(flavours=["asan"], quick=400000, thorough=12000000, chunk=5000, level="exploration"),
    "C02": dict(flavours=["asan"], quick=400000, thorough=12000000, chunk=5000, level="exploration"),
    "C03": dict(flavours=["asan"], quick=300000, thorough=9000000, chunk=4000, level="exploration"),
    "C05": dict(flavours=["asan"], quick=400000, thorough=12000000, chunk=5000, level="exploration"),
    "C10": dict(flavours=["asan"], quick=300000, thorough=8000000, chunk=4000, level="exploration"),
    "C13": dict(flavours=["asan"], quick=1000000, thorough=40000000, chunk=20000, level="exploration"),
    "C18": dict(flavours=["asan"], quick=150000, thorough=4000000, chunk=2000, level="exploration"),
    "C19": dict(flavours=["asan", "tsan"], quick=10000, thorough=400000, chunk=100, level="exploration"),
    "C20": dict(flavours=["asan"], quick=6000, thorough=150000, chunk=100, level="fault_enumeration"),
}

COLD_RUNS = {"C19": {"quick": 300, "thorough": 8000}}
COLD_BASE = 10000000

import threading
STOP_CHUNKS = threading.Event()
REPO_DIR = os.environ.get("REPO", "/repo").rstrip("/") + "/"   # where the library sources of this build live (a frame there is a library frame)

EXIT_CLASSES = {70: "TERMINATE", 71: "ABORT", 72: "HANG", 77: "SANITIZER", 78: "RACE_TSAN"}


def log(msg):
    print(msg, flush=True)


def binary(flavour):
    return os.path.join(VERIF, "build", flavour, "simcheck")


def build(flavour):
    t0 = time.time()
    p = subprocess.run(["make", "-C", VERIF, "-j16", "flavour=" + flavour], stdout=subprocess.PIPE, stderr=subprocess.STDOUT, text=True)
    if p.returncode != 0:
        log(p.stdout[-6000:])
        log("BUILD-FAILED flavour=%s (the tree under /repo does not compile with the harness)" % flavour)
        sys.exit(2)
    return time.time() - t0


# ---------------------------------------------------------------------------------------------------------------
# fatal classification from a dead worker's stderr
# ---------------------------------------------------------------------------------------------------------------
def strip_templates(name):
    out, depth = [], 0
    for ch in name:
        if ch == '<':
            depth += 1
        elif ch == '>':
            depth = max(0, depth - 1)
        elif depth == 0:
            out.append(ch)
    s = "".join(out)
    s = re.sub(r"\(.*$", "", s)
    return s.strip()


def classify_fatal(returncode, stderr_text):
    """returns (cls, site, detail)"""
    cls = EXIT_CLASSES.get(returncode)
    text = stderr_text[-60000:]
    m = re.search(r"FATAL (TERMINATE|HANG|ABORT|SIGNAL) site=(\S*) detail=(.*?) run=", text)
    if m:
        cls, site, detail = m.group(1), m.group(2), m.group(3)
        if cls == "ABORT":
            a = re.search(r"Assertion `(.*?)' failed", text)
            if a:
                cls = "ASSERT"
                site = "assert:" + a.group(1)[:120]
        if cls == "TERMINATE":
            e = re.search(r"exc=(\S+)", detail)
            site = site + ":" + (strip_templates(e.group(1)) if e else "?")
        return cls, site, detail[:300]
    if "ThreadSanitizer" in text:
        kind = re.search(r"WARNING: ThreadSanitizer: ([^\(\n]*)", text)
        frames = re.findall(r"#\d+ (\S.*?) (/\S+?):\d+", text)
        lib = [strip_templates(f[0]) for f in frames if "BitSerializer" in f[0] or f[1].startswith(REPO_DIR)]
        site = "tsan:" + (kind.group(1).strip() if kind else "?") + ":" + (lib[0] if lib else "NO-LIBRARY-FRAME")
        return "RACE_TSAN", site, (kind.group(0) if kind else "")[:300]
    s = re.search(r"SUMMARY: (AddressSanitizer|UndefinedBehaviorSanitizer): (\S+)", text)
    if s:
        kind = s.group(2)
        rt = re.search(r"(\S+?):\d+:\d+: runtime error: (.*)", text)
        frames = re.findall(r"#\d+ 0x[0-9a-f]+ in (.*?) (/\S+?):\d+", text)
        lib = [strip_templates(f[0]) for f in frames if f[1].startswith(REPO_DIR)]
        detail = ""
        if rt:
            msg = re.sub(r"0x[0-9a-f]+|\d+", "N", rt.group(2))
            kind = "ubsan:" + " ".join(msg.split()[:6])
            detail = rt.group(0)[:300]
            if not lib and rt.group(1).startswith(REPO_DIR):
                lib = [os.path.basename(rt.group(1))]
            elif not lib and not frames:
                lib = [os.path.basename(rt.group(1))] if REPO_DIR in rt.group(1) else []
        else:
            detail = s.group(0)
        site = kind + ":" + (lib[0] if lib else "NO-LIBRARY-FRAME")
        if kind == "stack-overflow":
            # only the innermost frames are printed; the recursing function identifies the defect, whoever owns it
            inner = [strip_templates(f[0]) for f in frames[:12] if not f[0].startswith("__asan") and not f[0].startswith("__interceptor")]
            site = "stack-overflow:" + (inner[0] if inner else "?")
        return "SANITIZER", site, detail
    if returncode is not None and returncode < 0:
        return "SIGNAL", "signal:%d" % (-returncode), "killed by signal %d" % (-returncode)
    return cls or "CRASH", "exit:%s" % returncode, text[-300:].replace("\n", " ")


# ---------------------------------------------------------------------------------------------------------------
# executing one plan in a fresh process
# ---------------------------------------------------------------------------------------------------------------
def write_plan(path, lanes):
    with open(path, "w") as f:
        for name in LANES:
            f.write("LANE %s %s\n" % (name, " ".join(str(v) for v in lanes.get(name, []))))


def parse_lanes(text):
    lanes = {}
    for line in text.splitlines():
        if line.startswith("LANE "):
            parts = line.split()
            lanes[parts[1]] = [int(x) for x in parts[2:]]
    return lanes


def exec_plan(flavour, prop, lanes, describe=False, timeout=120, cold=False):
    """returns dict(cls, site, tags, detail, hash, lanes(canonical or None), notes, fatal)"""
    fd, path = tempfile.mkstemp(prefix="plan.", dir=os.path.join(VERIF, "out", "tmp"))
    os.close(fd)
    try:
        write_plan(path, lanes)
        cmd = [binary(flavour), "exec", prop, path] + (["describe"] if describe else []) + (["cold"] if cold else [])
        try:
            p = subprocess.run(cmd, stdout=subprocess.PIPE, stderr=subprocess.PIPE, timeout=timeout)
            rc, out, err = p.returncode, p.stdout.decode("utf-8", "replace"), p.stderr.decode("utf-8", "replace")
        except subprocess.TimeoutExpired as e:
            return dict(cls="HANG_WALL", site="wall-clock", tags="", detail="no result within %ds" % timeout, hash="", lanes=None,
                        notes=(e.stdout or b"").decode("utf-8", "replace").splitlines(), fatal=True)
    finally:
        try:
            os.unlink(path)
        except OSError:
            pass
    notes = [l[5:] for l in out.splitlines() if l.startswith("NOTE ")]
    m = re.search(r"^RESULT (\S+) cls=(\S+) hash=(\S+)", out, re.M)
    if m and rc in (0, 1):
        tags = re.search(r"^TAGS (.*)$", out, re.M)
        detail = re.search(r"^DETAIL (.*)$", out, re.M)
        res = dict(cls=m.group(2) if m.group(1) == "violation" else "OK", site="", tags=tags.group(1) if tags else "",
                   detail=detail.group(1) if detail else "", hash=m.group(3), lanes=parse_lanes(out), notes=notes, fatal=False)
        return res
    cls, site, detail = classify_fatal(rc, err)
    lp = re.search(r"^LANEPOS (.*)$", err, re.M)
    lanepos = dict((kv.split("=")[0], int(kv.split("=")[1])) for kv in lp.group(1).split()) if lp else None
    return dict(cls=cls, site=site, tags="", detail=detail, hash="", lanes=None, lanepos=lanepos, notes=notes, fatal=True, stderr=err[-4000:])


def raw_lanes(flavour, prop, seed, idx, count=30000):
    p = subprocess.run([binary(flavour), "lanes", prop, str(seed), str(idx), str(count)], stdout=subprocess.PIPE, text=True)
    return parse_lanes(p.stdout)


# ---------------------------------------------------------------------------------------------------------------
# signatures and known findings
# ---------------------------------------------------------------------------------------------------------------
SIG_TAG_KEYS = ("archive", "dir", "what", "entry", "kind", "fault", "phase", "op")


def tagdict(tags):
    d = {}
    for t in tags.split():
        if "=" in t:
            k, v = t.split("=", 1)
            d[k] = v
    return d


def signature(res):
    if res["fatal"]:
        return (res["cls"], res["site"])
    td = tagdict(res["tags"])
    return (res["cls"], " ".join("%s=%s" % (k, td[k]) for k in SIG_TAG_KEYS if k in td and k != "entry"))


def load_known():
    path = os.path.join(VERIF, "known_findings.json")
    if not os.path.exists(path):
        return []
    with open(path) as f:
        data = json.load(f)
    return [e for e in data.get("findings", []) if e.get("status") == "known"]


def match_known(prop, res, known):
    td = tagdict(res.get("tags", ""))
    for e in known:
        if e["property"] != prop or e["class"] != res["cls"]:
            continue
        if e.get("site") and e["site"] != res.get("site"):
            continue
        ok = True
        for t in e.get("tags_all", []):
            k, v = t.split("=", 1)
            if td.get(k) != v:
                ok = False
        for t in e.get("tags_not", []):
            k, v = t.split("=", 1)
            if td.get(k) == v:
                ok = False
        for sub in e.get("detail_contains", []):
            if sub not in res.get("detail", ""):
                ok = False
        if ok:
            return e
    return None


# ---------------------------------------------------------------------------------------------------------------
# minimisation (delta debugging over the choice lanes, restricted to one signature)
# ---------------------------------------------------------------------------------------------------------------
class Shrinker:
    def __init__(self, flavour, prop, lanes, target_sig, jobs=16, max_attempts=700, max_seconds=150, cold=False):
        self.flavour, self.prop, self.sig, self.cold = flavour, prop, target_sig, cold
        self.lanes = {k: list(v) for k, v in lanes.items()}
        self.jobs, self.attempts, self.max_attempts = jobs, 0, max_attempts
        self.deadline = time.time() + max_seconds
        self.best_res = None
        self.pool = cf.ThreadPoolExecutor(max_workers=jobs)

    def budget_left(self):
        return self.attempts < self.max_attempts and time.time() < self.deadline

    def test(self, cand):
        res = exec_plan(self.flavour, self.prop, cand, cold=self.cold)
        return res if (res["cls"] != "OK" and signature(res) == self.sig) else None

    def try_batch(self, cands):
        """evaluates candidates in parallel, accepts the first (in candidate order) that keeps the signature"""
        i = 0
        while i < len(cands) and self.budget_left():
            batch = cands[i:i + self.jobs]
            self.attempts += len(batch)
            results = list(self.pool.map(self.test, batch))
            for c, r in zip(batch, results):
                if r is not None:
                    self.accept(c, r)
                    return True
            i += len(batch)
        return False

    def accept(self, cand, res):
        self.best_res = res
        if res.get("lanes"):
            self.lanes = {k: list(res["lanes"].get(k, [])) for k in LANES}
        else:
            self.lanes = {k: list(v) for k, v in cand.items()}
            if res.get("lanepos"):   # a fatal run reports how much of each lane it consumed
                for k, n in res["lanepos"].items():
                    self.lanes[k] = self.lanes.get(k, [])[:n]
        for k in LANES:   # drop trailing zeros: a dry lane yields 0 anyway
            v = self.lanes.setdefault(k, [])
            while v and v[-1] == 0:
                v.pop()

    def with_lane(self, name, values):
        c = {k: list(v) for k, v in self.lanes.items()}
        c[name] = values
        return c

    def run(self):
        # canonicalise first (truncates the 30000 raw values to what the run consumed)
        r = self.test(self.lanes)
        self.attempts += 1
        if r is None:
            return None
        self.accept(self.lanes, r)
        progress = True
        while progress and self.budget_left():
            progress = False
            for name in ["doc", "prog", "fault", "io", "cfg", "sched"]:
                # 1. cut the tail / delete blocks
                size = max(1, len(self.lanes[name]) // 2)
                while size >= 1 and self.budget_left():
                    v = self.lanes[name]
                    cands = [self.with_lane(name, v[:i] + v[i + size:]) for i in range(0, len(v), size)]
                    cands = [c for c in cands if c[name] != v]
                    if cands and self.try_batch(cands[::-1] if size > 1 else cands):
                        progress = True
                        continue
                    size //= 2
                # 2. zero single values, then lower them
                v = self.lanes[name]
                idxs = [i for i, x in enumerate(v) if x != 0]
                pos = 0
                while pos < len(idxs) and self.budget_left():
                    v = self.lanes[name]
                    group = [i for i in idxs[pos:pos + self.jobs] if i < len(v) and v[i] != 0]
                    cands = []
                    for i in group:
                        w = list(v)
                        w[i] = 0
                        cands.append(self.with_lane(name, w))
                    if cands and self.try_batch(cands):
                        progress = True
                        v = self.lanes[name]
                        idxs = [i for i, x in enumerate(v) if x != 0]
                        continue
                    pos += self.jobs
                v = self.lanes[name]
                for i in range(len(v)):
                    if not self.budget_left():
                        break
                    v = self.lanes[name]
                    if i >= len(v) or v[i] <= 1:
                        continue
                    cands = []
                    for nv in sorted(set([1, v[i] // 2, v[i] - 1])):
                        if 0 < nv < v[i]:
                            w = list(v)
                            w[i] = nv
                            cands.append(self.with_lane(name, w))
                    if cands and self.try_batch(cands):
                        progress = True
        return self.best_res


# ---------------------------------------------------------------------------------------------------------------
# worker pool
# ---------------------------------------------------------------------------------------------------------------
def run_chunk(flavour, prop, seed, a, b, wid, outdir, timeout):
    """runs [a,b) in worker processes, restarting after a fatal run; returns (violations, fatals, stats list)"""
    state = os.path.join(outdir, "state.%d" % wid)
    hashes = os.path.join(outdir, "hashes.%d" % wid)
    errf = os.path.join(outdir, "stderr.%d" % wid)
    violations, fatals, stats = [], [], []
    cur = a
    while cur < b:
        # enough has been seen: the check is going to fail anyway (a change that kills the worker on every other run would otherwise
        # cost one process start, warm-up and symbolizer call per run)
        if STOP_CHUNKS.is_set() or len(fatals) >= 12:
            break
        with open(errf, "wb") as ef:
            try:
                p = subprocess.run([binary(flavour), "run", prop, str(seed), str(cur), str(b), state, hashes], stdout=subprocess.PIPE, stderr=ef, timeout=timeout)
                rc, out = p.returncode, p.stdout.decode("utf-8", "replace")
            except subprocess.TimeoutExpired as e:
                rc, out = None, (e.stdout or b"").decode("utf-8", "replace")
        for line in out.splitlines():
            if line.startswith("V "):
                parts = [x.strip() for x in line[2:].split("|")]
                head = parts[0].split()
                violations.append(dict(idx=int(head[0]), cls=head[1], tags=parts[1] if len(parts) > 1 else "", detail=parts[2] if len(parts) > 2 else "",
                                       hash=parts[3] if len(parts) > 3 else "", fatal=False, site=""))
            elif line.startswith("STATS "):
                try:
                    stats.append(json.loads(line[6:]))
                except ValueError:
                    pass
        if rc == 0:
            break
        try:
            with open(state) as sf:
                idx = int(sf.read().strip() or cur)
        except (OSError, ValueError):
            idx = cur
        with open(errf, "rb") as ef:
            err = ef.read().decode("utf-8", "replace")
        if rc is None:
            cls, site, detail = "HANG_WALL", "wall-clock", "chunk did not finish within %ds" % timeout
        else:
            cls, site, detail = classify_fatal(rc, err)
        fatals.append(dict(idx=idx, cls=cls, site=site, tags="", detail=detail, fatal=True, hash=""))
        cur = idx + 1
    return violations, fatals, stats


def merge_stats(stats_list):
    tot = dict(evaluations=0, violations=0, nontrivial=0, seam_events=0, cov_reached=0, cov_total=0, counters={}, probes={})
    for s in stats_list:
        for k in ("evaluations", "violations", "nontrivial", "seam_events"):
            tot[k] += s.get(k, 0)
        tot["cov_reached"] = max(tot["cov_reached"], s.get("cov_reached", 0))
        tot["cov_total"] = max(tot["cov_total"], s.get("cov_total", 0))
        for k, v in s.get("counters", {}).items():
            tot["counters"][k] = tot["counters"].get(k, 0) + v
        for k, v in s.get("probes", {}).items():
            tot["probes"][k] = tot["probes"].get(k, 0) + v
    return tot


def count_distinct(outdir):
    files = [os.path.join(outdir, f) for f in os.listdir(outdir) if f.startswith("hashes.")]
    files = [f for f in files if os.path.getsize(f) > 0]
    if not files:
        return 0
    # (thousands of chunk files at the thorough tier: fed through stdin, not through the argument list)
    p = subprocess.Popen("sort -u | wc -l", shell=True, stdin=subprocess.PIPE, stdout=subprocess.PIPE)
    for f in files:
        with open(f, "rb") as fh:
            while True:
                block = fh.read(1 << 20)
                if not block:
                    break
                p.stdin.write(block)
    p.stdin.close()
    out = p.stdout.read().decode().strip()
    p.wait()
    return int(out or 0)


# ---------------------------------------------------------------------------------------------------------------
# check
# ---------------------------------------------------------------------------------------------------------------
def describe_samples(flavour, prop, seed, idxs):
    samples = []
    for i in idxs:
        p = subprocess.run([binary(flavour), "describe", prop, str(seed), str(i)], stdout=subprocess.PIPE, stderr=subprocess.DEVNULL, text=True, errors="replace")
        notes = [l[5:][:700] for l in p.stdout.splitlines() if l.startswith("NOTE ")]
        m = re.search(r"^RESULT (\S+) cls=(\S+) hash=(\S+) nontrivial=(\d)", p.stdout, re.M)
        samples.append(dict(seed=seed, run=i, result=m.group(1) if m else "died", event_hash=m.group(3) if m else "", nontrivial=bool(int(m.group(4))) if m else False, plan=notes[:40]))
    return samples


def process_violation(flavour, prop, seed, raw, known, outdir):
    """gate -> minimise -> classify. returns dict(kind='violation'|'known'|'harness', ...)"""
    idx = raw["idx"]
    cold = bool(raw.get("cold"))
    lanes = raw.get("lanes") or raw_lanes(flavour, prop, seed, idx)
    r1 = exec_plan(flavour, prop, lanes, cold=cold)
    r2 = exec_plan(flavour, prop, lanes, cold=cold)
    if r1["cls"] == "OK" or signature(r1) != signature(r2) or r1["hash"] != r2["hash"] or r1["cls"] != raw["cls"]:
        return dict(kind="harness", msg="run %d of %s: worker reported %s/%s but fresh-process replays gave %s and %s" % (idx, prop, raw["cls"], raw.get("site") or raw.get("tags"), signature(r1), signature(r2)))
    if r1["cls"] == "HANG_WALL":
        pass  # reproduced twice in fresh processes (r1, r2)
    if r1["fatal"] and "NO-LIBRARY-FRAME" in r1["site"]:
        return dict(kind="harness", msg="run %d of %s: %s %s has no library frame: defect of the harness or of a dependency, not reported as a violation\n%s" % (idx, prop, r1["cls"], r1["site"], r1.get("stderr", "")[-1500:]))
    sig = signature(r1)
    pre = match_known(prop, r1, known)
    sh = Shrinker(flavour, prop, lanes, sig, max_attempts=400 if r1["fatal"] else 700, max_seconds=60 if r1["fatal"] else 120, cold=cold)
    best = sh.run() or r1
    final_lanes = sh.lanes if sh.best_res else lanes
    desc = exec_plan(flavour, prop, final_lanes, describe=True, cold=cold)
    e = match_known(prop, best, known) or (pre if pre and match_known(prop, best, [pre]) else None)
    sizes = dict((k, len(v)) for k, v in final_lanes.items())
    replay = dict(property=prop, verif_seed=seed, run=idx, flavour=flavour, cold=cold, cls=best["cls"], site=best.get("site", ""), tags=best.get("tags", ""),
                  detail=best.get("detail", ""), event_hash=best.get("hash", ""), lanes=final_lanes, lane_sizes=sizes,
                  original_lane_sizes=dict((k, len(v)) for k, v in (r1.get("lanes") or {}).items()), shrink_attempts=sh.attempts, plan=desc["notes"][:200])
    if e:
        return dict(kind="known", entry=e, replay=replay)
    path = os.path.join(VERIF, "out", prop, "%d-%d.replay.json" % (seed, idx))
    with open(path, "w") as f:
        json.dump(replay, f, indent=1)
    # the minimised file must reproduce in a fresh process
    chk = exec_plan(flavour, prop, final_lanes, cold=cold)
    if chk["cls"] == "OK" or signature(chk) != sig:
        return dict(kind="harness", msg="minimised replay %s does not reproduce (%s vs %s)" % (path, signature(chk), sig))
    return dict(kind="violation", replay=replay, path=path)


def run_pinned(flavour, prop, known):
    """executes the pinned replay of every known finding of this property; prints KNOWN-FINDING while it still fails"""
    lines = []
    for e in known:
        if e["property"] != prop or e.get("flavour", "asan") != flavour:
            continue
        path = os.path.join(VERIF, e["replay"])
        if not os.path.exists(path):
            continue
        with open(path) as f:
            rp = json.load(f)
        res = exec_plan(flavour, prop, rp["lanes"])
        if res["cls"] != "OK" and match_known(prop, res, [e]):
            lines.append("KNOWN-FINDING: property=%s %s [%s]" % (prop, e["what"], e["id"]))
    return lines


def cmd_check(prop, tier, runs, jobs, seed):
    cfg = PROPS[prop]
    t0 = time.time()
    os.makedirs(os.path.join(VERIF, "out", "tmp"), exist_ok=True)
    os.makedirs(os.path.join(VERIF, "out", prop), exist_ok=True)
    os.makedirs(os.path.join(VERIF, "evidence"), exist_ok=True)
    known = load_known()
    total_runs = runs or cfg[tier]
    all_stats, found, harness_msgs, known_hits = {}, [], [], {}
    known_first = {}
    known_lines = []
    build_s = 0.0
    per_flavour = {}
    exit_code = 0
    for flavour in cfg["flavours"]:
        build_s += build(flavour)
        known_lines += run_pinned(flavour, prop, known)
        n = total_runs if flavour == "asan" else max(1, total_runs // 5)
        outdir = os.path.join(VERIF, "out", prop, "run." + flavour)
        subprocess.run(["rm", "-rf", outdir])
        os.makedirs(outdir)
        chunk = cfg["chunk"]
        chunks = [(a, min(a + chunk, n)) for a in range(0, n, chunk)]
        raw, stats = [], []
        tw = time.time()
        stop = False
        STOP_CHUNKS.clear()
        with cf.ThreadPoolExecutor(max_workers=jobs) as pool:
            futs = {}
            it = iter(enumerate(chunks))
            def submit():
                try:
                    wid, (a, b) = next(it)
                except StopIteration:
                    return False
                futs[pool.submit(run_chunk, flavour, prop, seed, a, b, wid, outdir, 600)] = (a, b)
                return True
            for _ in range(jobs):
                submit()
            while futs:
                done, _ = cf.wait(list(futs), return_when=cf.FIRST_COMPLETED)
                for d in done:
                    futs.pop(d)
                    v, f, s = d.result()
                    for item in v + f:
                        # a raw failure whose un-minimised signature already equals a listed finding is counted and skipped
                        pre = match_known(prop, item, known)
                        if pre:
                            known_hits[pre["id"]] = known_hits.get(pre["id"], 0) + 1
                            known_first.setdefault(pre["id"], item)
                        else:
                            raw.append(item)
                    stats += s
                    if len(raw) >= 40:
                        stop = True
                        STOP_CHUNKS.set()
                    if not stop:
                        submit()
        # cold runs (C19): one fresh process per run, no warm-up, the scheduled threads run before the sequential reference
        cold_n = COLD_RUNS.get(prop, {}).get(tier, 0) if not runs else (COLD_RUNS.get(prop, {}).get("quick", 0) if runs >= 1000 else 0)
        cold_done = 0
        if cold_n and not stop:
            if flavour != "asan":
                cold_n = max(1, cold_n // 2)
            def one_cold(k):
                idx = COLD_BASE + k
                try:
                    p = subprocess.run([binary(flavour), "cold", prop, str(seed), str(idx)], stdout=subprocess.PIPE, stderr=subprocess.PIPE, timeout=300)
                    rc, out, err = p.returncode, p.stdout.decode("utf-8", "replace"), p.stderr.decode("utf-8", "replace")
                except subprocess.TimeoutExpired:
                    return dict(idx=idx, cls="HANG_WALL", site="wall-clock", tags="", detail="cold run did not finish", fatal=True, hash="", cold=True)
                m = re.search(r"^RESULT (\S+) cls=(\S+) hash=(\S+)", out, re.M)
                if m and rc in (0, 1):
                    if m.group(1) != "violation":
                        return None
                    tags = re.search(r"^TAGS (.*)$", out, re.M)
                    detail = re.search(r"^DETAIL (.*)$", out, re.M)
                    return dict(idx=idx, cls=m.group(2), site="", tags=tags.group(1) if tags else "", detail=detail.group(1) if detail else "", fatal=False, hash=m.group(3), cold=True)
                cls, site, detail = classify_fatal(rc, err)
                return dict(idx=idx, cls=cls, site=site, tags="", detail=detail, fatal=True, hash="", cold=True)
            with cf.ThreadPoolExecutor(max_workers=jobs) as pool:
                for item in pool.map(one_cold, range(cold_n)):
                    cold_done += 1
                    if item:
                        pre = match_known(prop, item, known)
                        if pre:
                            known_hits[pre["id"]] = known_hits.get(pre["id"], 0) + 1
                        else:
                            raw.append(item)
        run_s = time.time() - tw
        st = merge_stats(stats)
        st["cold_runs"] = cold_done
        st["distinct_nontrivial"] = count_distinct(outdir)
        st["run_seconds"] = run_s
        per_flavour[flavour] = st
        # triage: group raw violations by signature, process one representative per group (lowest run index)
        groups = {}
        for r in sorted(raw, key=lambda x: x["idx"]):
            groups.setdefault(signature(r), []).append(r)
        for sig, items in list(groups.items())[:6]:
            res = process_violation(flavour, prop, seed, items[0], known, outdir)
            if res["kind"] == "harness":
                harness_msgs.append(res["msg"])
            elif res["kind"] == "known":
                known_hits[res["entry"]["id"]] = known_hits.get(res["entry"]["id"], 0) + len(items)
            else:
                found.append((res, len(items)))
    if os.environ.get("VERIF_REPIN"):
        # maintenance (after a generator change): minimise one instance of every listed finding that was met and pin it again
        for kid, item in known_first.items():
            res = process_violation(cfg["flavours"][0], prop, seed, item, known, None)
            if res["kind"] == "known" and res["entry"]["id"] == kid:
                rp = res["replay"]
                out = dict(property=prop, flavour=rp["flavour"], cls=rp["cls"], site=rp["site"], tags=rp["tags"], detail=rp["detail"], event_hash=rp["event_hash"],
                           lanes=rp["lanes"], lane_sizes=rp["lane_sizes"], plan=rp["plan"])
                with open(os.path.join(VERIF, "findings", kid + ".replay.json"), "w") as f:
                    json.dump(out, f, indent=1)
                log("re-pinned %s from run %d" % (kid, item["idx"]))
            else:
                log("could not re-pin %s from run %d: %s" % (kid, item["idx"], res["kind"]))
    # report
    for line in sorted(set(known_lines)):
        log(line)
    for res, cnt in found:
        rp = res["replay"]
        log("VIOLATION property=%s replay=%s" % (prop, res["path"]))
        log("  class=%s site=%s tags=[%s] runs-with-this-signature=%d" % (rp["cls"], rp["site"], rp["tags"], cnt))
        log("  detail: %s" % rp["detail"][:600])
        log("  minimised lanes: %s (from %s) in %d attempts" % (rp["lane_sizes"], rp["original_lane_sizes"], rp["shrink_attempts"]))
        for n in rp["plan"][:14]:
            log("    | " + n[:300])
        exit_code = 1
    for m in harness_msgs:
        log("HARNESS-ERROR: " + m)
        if exit_code == 0:
            exit_code = 2
    # scratch directories of C19's file round trips that a dying worker could not remove itself
    import glob, shutil
    for d in glob.glob(os.path.join(tempfile.gettempdir(), "simcheck-c19-*")):
        pid = d.rsplit("-", 1)[-1]
        if pid.isdigit() and not os.path.exists("/proc/" + pid):
            shutil.rmtree(d, ignore_errors=True)
    write_evidence(prop, tier, seed, cfg, per_flavour, found, known_hits, known_lines, build_s, time.time() - t0, total_runs)
    main_st = per_flavour[cfg["flavours"][0]]
    log("%s %s tier=%s seed=%d: %d runs, %d distinct non-trivial, %d violations, known-finding matches %s, %.1fs (build %.1fs)" % (
        "OK" if exit_code == 0 else "FAILED", prop, tier, seed, sum(s["evaluations"] for s in per_flavour.values()), main_st["distinct_nontrivial"], len(found), known_hits, time.time() - t0, build_s))
    return exit_code


RULES = {
    "C01": "a run = one generated value saved under one output configuration and loaded back under one input configuration; non-trivial = a stream on at least one side with >=2 underflows, or a non-UTF-8 encoding; distinct = distinct (configuration tuple, seam-event-log hash)",
    "C02": "a run = one valid document hit by 1-4 storage-corruption faults (or pure garbage) and loaded through memory and stream entries; non-trivial = the corrupted bytes differ from the valid document and at least one load ran; distinct = distinct (archive, target, event-log hash)",
    "C03": "a run = one object document + one request program executed through memory and stream; non-trivial = program not in document order or touching an absent key, on a stream with >=1 refill; distinct = distinct (configuration, event-log hash)",
    "C05": "a run = one well-typed document with 1-3 typed corruptions loaded under the Skip policies and compared with the same program on the unfaulted document; non-trivial = at least one offence actually skipped; distinct = distinct (configuration, event-log hash)",
    "C10": "a run = one document (valid, or corrupted in 1 run of 3) loaded from memory and from 1-3 simulated streams (file/pipe, delivery sizes, chunk knobs) plus a stream save; non-trivial = at least one stream load with >=2 underflows; distinct = distinct (archive, validity, knob tuple, event-log hash)",
    "C13": "a run = one text in one encoding/BOM/chunk-size/target-width, read through CEncodedStreamReader with an EOF fault position, plus writer and archive legs; non-trivial = text longer than one chunk or cut inside a character; distinct = distinct (configuration, event-log hash)",
    "C18": "a run = a history of 2-6 loads into one persistent target with injected aborts; non-trivial = prior size != document size for some container or >=1 aborted load; distinct = distinct (archive, history shape, event-log hash)",
    "C19": "a run = T threads x 3-10 operations under one seeded schedule; non-trivial = >=1 preemptive switch inside library code; distinct = distinct switch-sequence hashes",
    "C20": "a run = one scenario with one swept fault kind: every position of that fault is injected in turn (each position is one evaluation counted in counters.fault_positions); non-trivial = the fault fired inside the operation; distinct = distinct (scenario, fault kind, event-log hash)",
}


def write_evidence(prop, tier, seed, cfg, per_flavour, found, known_hits, known_lines, build_s, wall, requested):
    main = per_flavour[cfg["flavours"][0]]
    flv = cfg["flavours"][0]
    n = main["evaluations"]
    idxs = [0, 1, 2, 3, 5, 8]
    samples = describe_samples(flv, prop, seed, [i for i in idxs if i < max(n, 1)]) if n else []
    nontriv = [s for s in samples if s["nontrivial"]]
    samples = (nontriv[:2] + [s for s in samples if not s["nontrivial"]][:2]) or samples[:3]
    faults = {k: v for k, v in main["counters"].items() if k.startswith("fault.")}
    knobs = {k: v for k, v in main["counters"].items() if k.startswith(("binChunk.", "encChunk.", "kind.", "archive.", "enc."))}
    zero_probes = []
    ev = {
        "property_id": prop,
        "tier": tier,
        "seed": seed,
        "level": cfg["level"],
        "coverage": {
            "evaluations": (main["counters"].get("fault_positions", 0) if prop == "C20" else sum(s["evaluations"] for s in per_flavour.values())),
            "scenarios": sum(s["evaluations"] for s in per_flavour.values()),
            "distinct_nontrivial": sum(s["distinct_nontrivial"] for s in per_flavour.values()),
            "rule": RULES[prop],
            "samples": samples,
            "exhaustive": False,
            "runs_requested": requested,
            "runs_per_hour": int(main["evaluations"] / max(main["run_seconds"], 1e-3) * 3600),
            "seeds": {"VERIF_SEED": seed, "first_run": 0, "last_run": max(0, n - 1), "derivation": "run seed = mix64(mix64(VERIF_SEED, fnv1a(property)), run index); six choice lanes per run"},
            "simulated_time": "n/a - the system under test has no clock; progress is counted in seam events and basic blocks",
            "seam_events": main["seam_events"],
            "faults_fired": faults,
            "knob_histogram": knobs,
            "counters": {k: v for k, v in main["counters"].items() if k not in faults and k not in knobs},
            "probes": main["probes"],
            "instrumented_basic_blocks": {"reached_by_one_worker_max": main["cov_reached"], "total": main["cov_total"]},
            "per_flavour": {f: {"evaluations": s["evaluations"], "distinct_nontrivial": s["distinct_nontrivial"], "run_seconds": round(s["run_seconds"], 2), "cold_runs": s.get("cold_runs", 0)} for f, s in per_flavour.items()},
            "components": {
                "real": ["BitSerializer headers and src/{common,csv,msgpack} built from /repo's working tree with -DBITSERIALIZER_VERIF", "RapidJSON 1.1.0", "pugixml 1.13", "libstdc++ iostreams above the streambuf"],
                "stub": ["std::streambuf (simulated file/pipe)", "global operator new/delete (counting, k-th failure, cap)", "thread scheduling (C19 only)"],
                "not_built": ["RapidYAML archive (ryml is not installed)"],
            },
            "known_findings_matched": known_hits,
            "known_finding_lines": sorted(set(known_lines)),
            "build_flavours": cfg["flavours"],
        },
        "assumptions": ASSUMPTIONS.get(prop, []),
        "wall_s": round(wall, 2),
        "violations": len(found),
    }
    evdir = os.environ.get("VERIF_EVIDENCE_DIR") or os.path.join(VERIF, "evidence")
    os.makedirs(evdir, exist_ok=True)
    with open(os.path.join(evdir, prop + ".json"), "w") as f:
        json.dump(ev, f, indent=1)


ASSUMPTIONS = {
    "C01": ["values are sampled by a seeded generator (not enumerated)", "domain cuts per format are listed in harness/c01.cpp next to their reason"],
    "C02": ["allocation failures inside RapidJSON/pugixml malloc are not injected", "CPU/step budgets stand in for 'terminates'"],
    "C03": ["on a non-seekable stream a request that needs a backward seek may end in a SerializationException instead of the value"],
    "C05": ["nil offences are 'not loaded' under the library's own rule that null is outside the mismatched-types policy"],
    "C10": ["text formats: compared documents are UTF-8 without BOM and without NUL (the memory entry is documented as UTF-8)", "on a non-seekable stream a load that needs a backward seek may fail where the memory load succeeds", "the memory outcome is the specification: an error shared by both readers is invisible here"],
    "C13": ["UTF-8 stream read into a char target is copied through undecoded (library design): oracle is byte identity there"],
    "C18": ["differential against a load into a fresh target: an error shared by both is invisible here"],
    "C19": ["exactly one thread runs at a time; interleavings are at basic-block granularity of instrumented code, allocations and stream calls"],
    "C20": ["allocation failures inside RapidJSON/pugixml malloc are not injected", "streams keep the default exception mask except in throw mode (badbit)"],
}


def cmd_replay(path):
    with open(path) as f:
        rp = json.load(f)
    os.makedirs(os.path.join(VERIF, "out", "tmp"), exist_ok=True)
    build(rp.get("flavour", "asan"))
    res = exec_plan(rp.get("flavour", "asan"), rp["property"], rp["lanes"], describe=True, cold=bool(rp.get("cold")))
    for n in res["notes"]:
        log("  | " + n[:400])
    same = res["cls"] == rp["cls"] and (not res["fatal"] or res["site"] == rp.get("site")) and (res["fatal"] or res["hash"] == rp.get("event_hash"))
    if res["cls"] != "OK" and same:
        log("VIOLATION property=%s replay=%s" % (rp["property"], path))
        log("  class=%s site=%s tags=[%s]" % (res["cls"], res["site"], res["tags"]))
        log("  detail: %s" % res["detail"][:800])
        return 1
    log("replay of %s: recorded %s/%s, now %s/%s hash %s (recorded %s) -> does not reproduce" % (path, rp["cls"], rp.get("site"), res["cls"], res["site"], res["hash"], rp.get("event_hash")))
    return 0


def cmd_pin(src, ident):
    """re-executes the lanes of a replay file and writes findings/<ident>.replay.json with refreshed results"""
    with open(src) as f:
        rp = json.load(f)
    os.makedirs(os.path.join(VERIF, "out", "tmp"), exist_ok=True)
    flavour = rp.get("flavour", "asan")
    build(flavour)
    res = exec_plan(flavour, rp["property"], rp["lanes"], describe=True)
    if res["cls"] == "OK":
        log("plan does not fail: not pinned")
        return 1
    lanes = res["lanes"] or rp["lanes"]
    out = dict(property=rp["property"], flavour=flavour, cls=res["cls"], site=res.get("site", ""), tags=res.get("tags", ""), detail=res.get("detail", ""),
               event_hash=res.get("hash", ""), lanes=lanes, lane_sizes=dict((k, len(v)) for k, v in lanes.items()), plan=res["notes"][:200])
    path = os.path.join(VERIF, "findings", ident + ".replay.json")
    with open(path, "w") as f:
        json.dump(out, f, indent=1)
    log("pinned %s: %s %s [%s]" % (path, res["cls"], res.get("site", ""), res.get("tags", "")))
    return 0


def cmd_determinism(prop, runs, seed):
    """runs the same seeds twice (one worker in order, many workers in shuffled chunks) and diffs the per-run hashes"""
    os.makedirs(os.path.join(VERIF, "out", "tmp"), exist_ok=True)
    bad = 0
    for flavour in PROPS[prop]["flavours"]:
        build(flavour)
        res = []
        for mode, chunk in (("serial", runs), ("parallel", max(1, runs // 37))):
            outdir = os.path.join(VERIF, "out", prop, "det." + mode)
            subprocess.run(["rm", "-rf", outdir])
            os.makedirs(outdir)
            chunks = [(a, min(a + chunk, runs)) for a in range(0, runs, chunk)]
            if mode == "parallel":
                chunks = chunks[::-1]
            env = dict(os.environ, SIM_PRINT_HASHES="1")
            def one(args):
                wid, (a, b) = args
                p = subprocess.run([binary(flavour), "run", prop, str(seed), str(a), str(b), os.path.join(outdir, "s%d" % wid), os.path.join(outdir, "h%d" % wid)],
                                   stdout=subprocess.PIPE, stderr=subprocess.DEVNULL, env=env, text=True, errors="replace")
                return [l for l in p.stdout.splitlines() if l.startswith("H ")]
            with cf.ThreadPoolExecutor(max_workers=16 if mode == "parallel" else 1) as pool:
                lines = [l for ls in pool.map(one, list(enumerate(chunks))) for l in ls]
            res.append(dict((l.split()[1], l.split()[2:]) for l in lines))
        a, b = res
        mism = [k for k in a if a[k] != b.get(k)]
        log("determinism %s/%s: %d runs serial vs %d runs parallel-shuffled, %d mismatches %s" % (prop, flavour, len(a), len(b), len(mism), mism[:10]))
        bad += len(mism) + abs(len(a) - len(b))
    return 0 if bad == 0 else 2


def main():
    args = sys.argv[1:]
    if not args:
        print(__doc__)
        return 2
    def opt(name, default=None):
        if name in args:
            return args[args.index(name) + 1]
        return default
    seed = int(os.environ.get("VERIF_SEED", "1") or "1")
    if args[0] == "check":
        tier = opt("--tier", os.environ.get("VERIF_TIER", "quick") or "quick")
        if tier not in ("quick", "thorough"):
            tier = "quick"
        runs = opt("--runs")
        return cmd_check(args[1], tier, int(runs) if runs else None, int(opt("--jobs", "16")), seed)
    if args[0] == "replay":
        return cmd_replay(args[1])
    if args[0] == "pin":
        return cmd_pin(args[1], args[2])
    if args[0] == "determinism":
        return cmd_determinism(args[1], int(opt("--runs", "2000")), seed)
    print(__doc__)
    return 2


if __name__ == "__main__":
    sys.exit(main())
