#!/usr/bin/env python3
"""Refreshes the status=fixed entries of known_findings.json from the 'fix:' commits of /repo (subject keyword -> property)."""
import json, subprocess

MAP = [
 ("misaligned pointers", "C02"), ("memcpy on overlapping", "C10"), ("~CMsgPackReadObjectScope threw", "C20"), ("could not seek back after the last chunk", "C10"),
 ("quoted value read by name without its offset", "C10"), ("accepted a truncated document when the skipped value", "C10"), ("lost the empty last value", "C10"),
 ("'No more values to read' instead of applying", "C10"), ("ext16/ext32 values from the wrong offset", "C10"), ("parsed the ext header of a mismatched value", "C10"),
 ("did not count a binary array loaded as its element", "C01"), ("did not count an element that was skipped", "C05"), ("unsigned 32-bit integers with SetInt", "C01"),
 ("parsed from UTF-16/UTF-32 streams as if", "C01"), ("consisting only of whitespace", "C01"), ("result of RapidJSON's writer was ignored", "C01"),
 ("reserved the string buffer from the declared length", "C02"), ("SkipValue recursed once per nesting level", "C02"), ("made no progress (endless loop", "C02"),
 ("declared (untrusted) element count as estimated size", "C02"), ("parsed recursively", "C02"), ("dereferenced the end iterator", "C02"),
 ("did not skip the elements that were left unread", "C03"), ("kept them marked as escaped", "C03"), ("consumed (skipped) a value that is not a binary array", "C05"),
 ("kept the current key as a view", "C05"), ("~CCsvWriteObjectScope threw", "C20"), ("constructor was declared noexcept", "C20"), ("IsEnd() never became true", "C20"),
 ("std::valarray used resize()", "C20"), ("kept waiting for the rest of an incomplete character", "C20"), ("JSON null in place of an object or array", "C18"),
 ("XML child-less element in place of an object or array", "C01"), ("JSON null in place of a string", "C18"), ("kept the content of the old item", "C18"),
 ("DetectEncoding never examined the last code unit", "C13"), ("binary timestamp with negative nanoseconds", "C01"), ("loading std::atomic ignored whether the value was loaded", "C03"), ("did not recognise U+DBFF", "C13"), ("Required validator must not be noexcept", "C20"), ("inserted an uninitialised value", "C10"), ("overtaken by its own consequences", "C10"), ("signed integer overflow (undefined behaviour) in the ISO-8601", "C02"), ("rewound to the wrong place", "C10"), ("kept the members its new value does not mention", "C18"), ("DECLARE_ENUM_STREAM_OPS never returned", "C02"), ("loading a multimap reversed the order", "C01"), ("std::bitset / std::vector<bool> that is not loaded", "C05"),
]

def main():
    log = subprocess.run(["git", "-C", "/repo", "log", "--format=%h\t%s"], stdout=subprocess.PIPE, text=True).stdout.splitlines()
    fixes = [l.split("\t", 1) for l in log if "\tfix:" in l]
    path = "/verif/known_findings.json"
    d = json.load(open(path))
    d["findings"] = [e for e in d["findings"] if not e.get("generated")]
    unmapped = []
    for h, subj in reversed(fixes):
        prop = next((p for k, p in MAP if k in subj), None)
        if not prop:
            unmapped.append(subj)
            continue
        what = subj[len("fix: "):]
        d["findings"].append({"id": "FIXED-" + h, "status": "fixed", "generated": True, "property": prop, "commit": h,
                              "line": "fixed: property=%s %s %s" % (prop, h, what)})
    json.dump(d, open(path, "w"), indent=1)
    print("fixed entries:", len(fixes) - len(unmapped), "unmapped:", unmapped)

if __name__ == "__main__":
    main()
