#!/usr/bin/env python3
"""Sensitivity self-test: applies a seeded breaking change to /repo, runs checks, reverts, records who detected it.

  mutants.py eval <seeded-dir> [--props C01,C10] [--runs N]     (seeded-dir contains patch.diff and meta.json)
  mutants.py all [--runs N] [--own] [--match SUBSTR] [--dir ABS]   (every directory under /verif/seeded; --own: only the check of the change's property)
"""
import json, os, re, subprocess, sys, time

VERIF = os.path.dirname(os.path.dirname(os.path.abspath(__file__)))
ALL = ["C01", "C02", "C03", "C05", "C10", "C13", "C18", "C19", "C20"]


def sh(cmd, **kw):
    return subprocess.run(cmd, shell=True, stdout=subprocess.PIPE, stderr=subprocess.STDOUT, text=True, **kw)


def evaluate(d, props, runs):
    patch = os.path.join(d, "patch.diff")
    name = os.path.basename(os.path.normpath(d))
    st = sh("git -C /repo status --porcelain --untracked-files=no")
    if st.stdout.strip():
        print("refusing: /repo has local modifications")
        sys.exit(2)
    ap = sh("git -C /repo apply %s" % patch)
    if ap.returncode != 0:
        print("patch does not apply:", ap.stdout)
        return None
    res = {}
    try:
        for p in props:
            t0 = time.time()
            cmd = "python3 %s/driver/simcheck.py check %s --tier quick" % (VERIF, p) + (" --runs %d" % runs[p] if p in runs else "")
            r = sh(cmd, cwd=VERIF, env=dict(os.environ, VERIF_EVIDENCE_DIR=os.path.join(VERIF, "out", "mutant-evidence")))
            viol = re.findall(r"^VIOLATION property=(\S+) replay=(\S+)\n  class=(\S+) site=(.*?) tags=\[(.*?)\]", r.stdout, re.M)
            res[p] = dict(exit=r.returncode, seconds=round(time.time() - t0, 1), violations=[dict(cls=v[2], site=v[3], tags=v[4]) for v in viol],
                          tail=r.stdout.strip().splitlines()[-1][:300] if r.stdout.strip() else "")
            print("  %s %s exit=%d %s" % (name, p, r.returncode, "; ".join(v[2] + "/" + (v[3] or v[4])[:80] for v in viol)[:300]), flush=True)
    finally:
        sh("git -C /repo checkout -- .")
    return res


def main():
    args = sys.argv[1:]
    def opt(n, d=None):
        if n in args:
            i = args.index(n)
            return args[i + 1] if i + 1 < len(args) and not args[i + 1].startswith("--") else ""
        return d
    runs = {}
    if opt("--runs"):
        runs = {p: int(opt("--runs")) for p in ALL}
    if args[0] == "eval":
        dirs = [args[1]]
    else:
        base = opt("--dir", os.path.join(VERIF, "seeded"))
        dirs = sorted(os.path.join(base, x) for x in os.listdir(base) if os.path.isdir(os.path.join(base, x)) and (opt("--match") or "") in x)
    props = opt("--props").split(",") if opt("--props") else None
    path = os.path.join(VERIF, "selftest", "mutation_matrix.json")
    matrix = json.load(open(path)) if os.path.exists(path) else {}
    for d in dirs:
        meta = {}
        if os.path.exists(os.path.join(d, "meta.json")):
            meta = json.load(open(os.path.join(d, "meta.json")))
        ps = props or meta.get("run_checks") or ([meta["property"]] if opt("--own") is not None and meta.get("property") else ALL)
        print("== %s (breaks %s) checks %s" % (d, meta.get("property"), ps), flush=True)
        res = evaluate(d, ps, runs)
        if res is None:
            continue
        name = os.path.basename(os.path.normpath(d))
        entry = matrix.setdefault(name, {"property": meta.get("property"), "results": {}})
        entry["results"].update(res)
        entry["detected_by"] = sorted(p for p, r in entry["results"].items() if r["exit"] == 1)
        json.dump(matrix, open(path, "w"), indent=1)
    return 0


if __name__ == "__main__":
    sys.exit(main())
