// C19 — independent serializations on different threads do not interfere.
// T real threads run under the seeded scheduler (exactly one at a time, preemption possible at every basic block of
// instrumented code, every armed allocation, every simulated stream call). Oracle 1: results equal the sequential run.
// Oracle 2 (tsan flavour): ThreadSanitizer, which cannot see the scheduler's hand-off, reports any unsynchronised pair.
#include <chrono>
#include <filesystem>
#include <fstream>
#include <unistd.h>
#include "scen_util.h"
#include "zoo_gen.h"
#include "simsched.h"
#include "bitserializer/types/std/chrono.h"

namespace hz {

enum OpKind { OP_SAVE_OWN = 0, OP_LOAD_OWN, OP_SAVE_SHARED, OP_LOAD_SHARED, OP_CONVERT, OP_LOAD_INVALID, OP_LOAD_CORRUPT, OP_SAVE_SHARED_ZOO, OP_LOAD_SHARED_ZOO, OP_FILE, OP_COUNT };
static const char* OpName(int k) { static const char* n[] = { "save_own", "load_own", "save_shared", "load_shared", "convert", "load_invalid", "load_corrupt", "save_shared_zoo", "load_shared_zoo", "file_roundtrip" }; return n[k]; }

bool g_coldRun = false;   // set by the worker's `cold` command: nothing of the library has run in this process yet

struct Op
{
	int kind = 0;
	int archive = 0;
	bool stream = false;
	std::vector<uint32_t> delivery;
	uint32_t outBuf = 0;
	DynNode doc;              // own document (save) / shape (load)
	std::string bytes;        // own input bytes (load)
	int64_t number = 0;       // convert
	double real = 0;
	std::u32string text;
	std::string path;         // file_roundtrip: the file this operation (and nobody else) owns
	bool libraryDefaults = false;   // own data, and no options argument at all: the library's DefaultOptions
	bool ownOptions = false;  // operations on own data may run with their own options (separator, policies), different per thread
	SerializationOptions options;
};

struct Shared
{
	DynNode doc[A_COUNT];             // const while the threads run
	std::string bytes[A_COUNT];       // const while the threads run
	SerializationOptions options;     // const while the threads run
	Zoo zoo[A_COUNT];                 // const while the threads run (every std adapter, saved by several threads at once)
	std::string zooBytes[A_COUNT];    // const while the threads run
};

struct ThreadWork
{
	std::vector<Op> ops;
	std::vector<std::string> results;
};

struct Batch
{
	const Shared* shared = nullptr;
	std::vector<ThreadWork>* work = nullptr;
};

static std::string Summ(const CallResult& r, const std::string& payload)
{
	return r.cat + "|" + r.what + "|" + std::to_string(payload.size()) + ":" + std::to_string(sim::fnv1a(payload));
}

// One operation on thread-local data plus the shared read-only inputs. Never touches the verification knobs.
static std::string Execute(const Op& op, const Shared& sh)
{
	ArchiveOps& ops = GetOps(op.archive);
	const SerializationOptions& o = op.libraryDefaults ? kLibraryDefaults : op.ownOptions ? op.options : sh.options;
	switch (op.kind)
	{
	case OP_SAVE_OWN:
	case OP_SAVE_SHARED:
	{
		DynNode& doc = op.kind == OP_SAVE_OWN ? const_cast<DynNode&>(op.doc) : const_cast<DynNode&>(sh.doc[op.archive]);   // saving does not modify the model
		std::string out;
		CallResult r;
		if (!op.stream) r = Guarded([&] { ops.SaveDyn(doc, o, IoOut{ &out, nullptr }); });
		else
		{
			sim::SimOStreamBuf sb(out, op.outBuf);
			std::ostream os(&sb);
			r = Guarded([&] { ops.SaveDyn(doc, o, IoOut{ nullptr, &os }); });
			os.flush();
		}
		return Summ(r, out);
	}
	case OP_LOAD_OWN:
	case OP_LOAD_SHARED:
	case OP_LOAD_INVALID:
	case OP_LOAD_CORRUPT:
	{
		const std::string& bytes = op.kind == OP_LOAD_SHARED ? sh.bytes[op.archive] : op.bytes;
		DynNode target = Skeleton(op.kind == OP_LOAD_SHARED ? sh.doc[op.archive] : op.doc);
		if (op.kind == OP_LOAD_INVALID)
		{
			// a Required() field that the document does not have: the load ends in a ValidationException
			if (target.kind == K::Obj)
			{
				Key k; k.s = "requiredButAbsent";
				target.keys.push_back(k);
				DynNode req(K::I32);
				req.required = true;
				target.items.push_back(req);
			}
		}
		CallResult r;
		if (!op.stream) r = Guarded([&] { ops.LoadDyn(target, o, IoIn{ &bytes, nullptr }); });
		else
		{
			sim::SimIStreamBuf sb(bytes, true, op.delivery);
			std::istream is(&sb);
			r = Guarded([&] { ops.LoadDyn(target, o, IoIn{ nullptr, &is }); });
		}
		return Summ(r, TraceRepr(target));
	}
	case OP_FILE:
	{
		// SaveObjectToFile + LoadObjectFromFile on a file of its own (other operations use other names in the same directory)
		DynNode& doc = const_cast<DynNode&>(op.doc);
		CallResult r = Guarded([&] { ops.SaveDynToFile(doc, o, op.path); });
		std::string content;
		{ std::ifstream f(op.path, std::ios::binary); std::stringstream ss; ss << f.rdbuf(); content = ss.str(); }
		DynNode target = Skeleton(op.doc);
		CallResult r2 = Guarded([&] { ops.LoadDynFromFile(target, o, op.path); });
		return Summ(r, content) + "//" + Summ(r2, TraceRepr(target));
	}
	case OP_SAVE_SHARED_ZOO:
	{
		Zoo& z = const_cast<Zoo&>(sh.zoo[op.archive]);   // saving does not modify the model
		std::string out;
		CallResult r;
		if (!op.stream) r = Guarded([&] { ops.SaveZoo(z, o, IoOut{ &out, nullptr }); });
		else
		{
			sim::SimOStreamBuf sb(out, op.outBuf);
			std::ostream os(&sb);
			r = Guarded([&] { ops.SaveZoo(z, o, IoOut{ nullptr, &os }); });
			os.flush();
		}
		return Summ(r, out);
	}
	case OP_LOAD_SHARED_ZOO:
	{
		Zoo target;
		target.skipIntKeyMaps = sh.zoo[op.archive].skipIntKeyMaps;
		target.csvRoot = sh.zoo[op.archive].csvRoot;
		const std::string& bytes = sh.zooBytes[op.archive];
		CallResult r;
		if (!op.stream) r = Guarded([&] { ops.LoadZoo(target, o, IoIn{ &bytes, nullptr }); });
		else
		{
			sim::SimIStreamBuf sb(bytes, true, op.delivery);
			std::istream is(&sb);
			r = Guarded([&] { ops.LoadZoo(target, o, IoIn{ nullptr, &is }); });
		}
		std::string payload;
		for (auto& kv : ZooFields(target, op.archive == A_CSV)) payload += kv.first + "=" + kv.second + ";";
		return Summ(r, payload);
	}
	default:
	{
		std::string acc;
		CallResult r = Guarded([&]
		{
			namespace C = BitSerializer::Convert;
			acc += C::ToString(op.number) + ";";
			acc += C::ToString(op.real) + ";";
			acc += std::to_string(C::To<int64_t>(C::ToString(op.number))) + ";";
			acc += C::ToString(static_cast<BitSerializer::ArchiveType>(static_cast<int>(static_cast<uint64_t>(op.number) % 5))) + ";";
			acc += std::to_string(static_cast<int>(C::To<Color>(std::string(op.number % 2 ? "green" : "Blue")))) + ";";
			acc += std::to_string(static_cast<int>(C::To<BitSerializer::SerializationErrorCode>(std::string("Overflow")))) + ";";
			const auto tp = std::chrono::system_clock::time_point(std::chrono::seconds(op.number % 4000000000ll));
			const std::string iso = C::ToString(tp);
			acc += iso + ";";
			acc += std::to_string(C::To<std::chrono::system_clock::time_point>(iso).time_since_epoch().count()) + ";";
			acc += C::ToString(std::chrono::seconds(op.number % 100000)) + ";";
			acc += C::ToString(BitSerializer::CRawTime(static_cast<time_t>(op.number % 4000000000ll))) + ";";
			acc += std::to_string(static_cast<long long>(C::To<BitSerializer::CRawTime>(iso).Time)) + ";";
			const std::string u8 = C::To<std::string>(op.text);
			const std::u16string u16 = C::To<std::u16string>(u8);
			acc += u8 + ";" + std::to_string(u16.size()) + ";" + C::To<std::string>(u16);
			(void)C::TryTo<int8_t>(std::string("300"));
			(void)C::TryTo<bool>(std::string("maybe"));
		});
		return Summ(r, acc);
	}
	}
}

static void ThreadBody(void* arg, uint32_t index)
{
	Batch* b = static_cast<Batch*>(arg);
	ThreadWork& w = (*b->work)[index];
	sim::steps_begin(UINT64_MAX);
	sim::alloc_arm(0);     // allocations are preemption points too
	for (size_t i = 0; i < w.ops.size(); ++i) w.results[i] = Execute(w.ops[i], *b->shared);
	sim::alloc_disarm();
	sim::steps_end();
}

Outcome RunC19(RunCtx& ctx)
{
	Source& s = ctx.src;
	const uint32_t T = 2 + s.draw(sim::L_CFG, 3);
	Shared sh;
	sh.options = GenLoadOptions(s, sim::L_CFG, A_JSON);
	sh.options.valuesSeparator = ',';
	GenCfg g;
	g.maxNodes = 12;
	g.maxStr = 80;
	g.simpleFloats = true;
	for (int a = 0; a < A_COUNT; ++a)
	{
		g.archive = a;
		g.allowEmptyContainers = a != A_CSV;
		g.forceContainerRoot = true;
		{
			Source twinSource = s;
			DynNode twin = GenDocument(twinSource, sim::L_DOC, g);
			(void)SaveDynWith(GetOps(a), twin, sh.bytes[a], sh.options, OutCfg{});
		}
		sh.doc[a] = GenDocument(s, sim::L_DOC, g);
		ZooGenCfg zg;
		zg.archive = a;
		zg.maxLen = 4;
		// the shared document is written from a twin generated from the same choices: the shared const object itself is not touched
		// by anything before the threads run (a first save that "normalises" its source would otherwise hide behind this one)
		{
			Source twinSource = s;
			Zoo twin;
			GenZoo(twinSource, sim::L_DOC, twin, zg);
			if (a == A_CSV) EnsureCsvRow(twin);
			(void)SaveZooWith(GetOps(a), twin, sh.zooBytes[a], sh.options, OutCfg{});
		}
		GenZoo(s, sim::L_DOC, sh.zoo[a], zg);
		if (a == A_CSV) EnsureCsvRow(sh.zoo[a]);
	}
	std::vector<ThreadWork> work(T);
	std::string plan;
	uint32_t usedFileNames = 0;
	const std::string fileDir = (std::filesystem::temp_directory_path() / ("simcheck-c19-" + std::to_string(getpid()))).string();
	std::filesystem::create_directories(fileDir);
	struct RemoveDir { std::string d; ~RemoveDir() { std::error_code ec; std::filesystem::remove_all(d, ec); } } removeDir{ fileDir };
	// swarm: 1 run in 3 keeps every thread in the same code (one archive, one direction, one entry), so that two threads are
	// likely to be inside the same function at the same time
	const bool focus = s.chance(sim::L_PROG, 1, 3);
	const int focusArchive = static_cast<int>(s.draw(sim::L_PROG, A_COUNT));
	const uint32_t focusDir = s.draw(sim::L_PROG, 3);      // 0 saves, 1 loads, 2 both
	const uint32_t focusEntry = s.draw(sim::L_PROG, 3);    // 0 memory, 1 stream, 2 both
	if (focus) { g.maxStr = 300; ctx.count(std::string("focus.") + ArchiveName(focusArchive)); }
	for (uint32_t t = 0; t < T; ++t)
	{
		const uint32_t n = 3 + s.draw(sim::L_PROG, 8);
		for (uint32_t i = 0; i < n; ++i)
		{
			Op op;
			op.kind = static_cast<int>(s.draw(sim::L_PROG, OP_COUNT));
			op.archive = static_cast<int>(s.draw(sim::L_PROG, A_COUNT));
			op.stream = s.chance(sim::L_PROG, 1, 2);
			if (focus)
			{
				op.archive = focusArchive;
				static const int saves[] = { OP_SAVE_OWN, OP_SAVE_SHARED, OP_SAVE_SHARED_ZOO, OP_SAVE_OWN };
				static const int loads[] = { OP_LOAD_OWN, OP_LOAD_SHARED, OP_LOAD_INVALID, OP_LOAD_CORRUPT, OP_LOAD_SHARED_ZOO };
				if (focusDir == 0) op.kind = saves[static_cast<uint32_t>(op.kind) % 4];
				else if (focusDir == 1) op.kind = loads[static_cast<uint32_t>(op.kind) % 5];
				else if (op.kind == OP_CONVERT) op.kind = OP_SAVE_OWN;
				if (focusEntry == 0) op.stream = false; else if (focusEntry == 1) op.stream = true;
			}
			const uint32_t nd = s.draw(sim::L_IO, 3);
			for (uint32_t k = 0; k < nd; ++k) { static const uint32_t sizes[] = { 1, 3, 7, 16, 64 }; op.delivery.push_back(s.pick(sim::L_IO, sizes)); }
			static const uint32_t bufs[] = { 0, 7, 4096 };
			op.outBuf = s.pick(sim::L_IO, bufs);
			g.archive = op.archive;
			g.allowEmptyContainers = op.archive != A_CSV;
			if (op.kind == OP_FILE)
			{
				// every file operation of the run gets a name of its own; names share stems across archives (report.json, report.xml, ...)
				static const char* const stems[] = { "report", "data", "state" };
				static const char* const exts[] = { "msgpack", "json", "xml", "csv" };
				bool found = false;
				for (uint32_t tries = 0; tries < 3 && !found; ++tries)
				{
					const uint32_t st = (s.draw(sim::L_PROG, 3) + tries) % 3;
					const uint32_t slot = st * 4 + static_cast<uint32_t>(op.archive);
					if (!(usedFileNames & (1u << slot))) { usedFileNames |= 1u << slot; op.path = fileDir + "/" + stems[st] + "." + exts[op.archive]; found = true; }
				}
				if (!found) op.kind = OP_SAVE_OWN;
			}
			// 1 own document in 8 is a chain of 100...140 nested arrays (every thread then holds that many open scopes at once)
			const bool deep = op.archive != A_CSV && (op.kind == OP_SAVE_OWN || op.kind == OP_LOAD_OWN || op.kind == OP_FILE) && s.chance(sim::L_DOC, 1, 8);
			if (op.kind == OP_SAVE_OWN || op.kind == OP_LOAD_OWN || op.kind == OP_LOAD_INVALID || op.kind == OP_LOAD_CORRUPT || op.kind == OP_FILE)
			{
				op.ownOptions = s.chance(sim::L_CFG, 1, 2);
				op.libraryDefaults = !op.ownOptions && op.archive != A_CSV && (op.kind == OP_SAVE_OWN || op.kind == OP_LOAD_OWN) && s.chance(sim::L_CFG, 1, 2);
				if (op.ownOptions)
				{
					op.options = GenLoadOptions(s, sim::L_CFG, op.archive);
					if (op.archive != A_CSV && op.archive != A_MSGPACK && s.chance(sim::L_CFG, 1, 2))
					{
						op.options.formatOptions.enableFormat = true;
						op.options.formatOptions.paddingChar = s.chance(sim::L_CFG, 1, 2) ? ' ' : '\t';
						op.options.formatOptions.paddingCharNum = static_cast<uint16_t>(1 + s.draw(sim::L_CFG, 4));
					}
				}
				op.doc = GenDocument(s, sim::L_DOC, g);
				if (deep)
				{
					const uint32_t depth = 100 + s.draw(sim::L_DOC, 41);
					DynNode chain(K::I32);
					chain.i32 = static_cast<int32_t>(depth);
					for (uint32_t d = 0; d < depth; ++d) { DynNode outer(K::Arr); outer.items.push_back(std::move(chain)); chain = std::move(outer); }
					op.doc = std::move(chain);
				}
				if (op.kind != OP_SAVE_OWN && op.kind != OP_FILE)
				{
					(void)SaveDynWith(GetOps(op.archive), op.doc, op.bytes, op.libraryDefaults ? kLibraryDefaults : op.ownOptions ? op.options : sh.options, OutCfg{});
					if (op.kind == OP_LOAD_CORRUPT) (void)CorruptOnce(s, sim::L_FAULT, op.bytes, op.archive == A_MSGPACK, ctx);
				}
			}
			op.number = GenSigned(s, sim::L_DOC, 64);
			op.real = static_cast<double>(s.range(sim::L_DOC, -100000, 100000)) / 16.0;
			op.text = GenText(s, sim::L_DOC, TextProfile::Any, 30);
			plan += "t" + std::to_string(t) + ":" + OpName(op.kind) + "/" + ArchiveName(op.archive) + (op.stream ? "/stream" : "/mem") + (op.ownOptions ? "/sep" + std::to_string(static_cast<int>(op.options.valuesSeparator)) + " " : " ");
			work[t].ops.push_back(std::move(op));
		}
		work[t].results.resize(work[t].ops.size());
	}
	ResetKnobs();

	// ---- sequential reference (same process, same inputs); a cold run computes it AFTER the scheduled run, so that every
	//      first-use initialisation inside the library happens under the scheduler ----
	std::vector<std::vector<std::string>> expected(T);
	uint64_t seqSteps = 60000;
	auto sequential = [&]
	{
		sim::steps_begin(UINT64_MAX);
		for (uint32_t t = 0; t < T; ++t) { expected[t].clear(); for (auto& op : work[t].ops) expected[t].push_back(Execute(op, sh)); }
		seqSteps = sim::steps_now();
		sim::steps_end();
	};
	if (!g_coldRun) sequential();

	// ---- the schedule ----
	static sim::SchedPlan sp;
	sp.nThreads = T;
	const bool pct = s.chance(sim::L_SCHED, 1, 3);
	if (pct)
	{
		// few change points placed uniformly over the step count measured in the sequential run
		sp.nSwitches = 1 + s.draw(sim::L_SCHED, 4);
		for (uint32_t i = 0; i < sp.nSwitches; ++i) sp.delta[i] = 1 + s.draw(sim::L_SCHED, static_cast<uint32_t>(std::min<uint64_t>(seqSteps / sp.nSwitches + 1, 0x7FFFFFFF)));
	}
	else
	{
		static const uint32_t means[] = { 4, 16, 64, 256, 1024 };
		const uint32_t mean = s.pick(sim::L_SCHED, means);
		sp.nSwitches = static_cast<uint32_t>(std::min<uint64_t>(sim::SchedPlan::max_switches, seqSteps / mean + 1));
		for (uint32_t i = 0; i < sp.nSwitches; ++i) sp.delta[i] = 1 + s.draw(sim::L_SCHED, 2 * mean);
	}
	for (uint32_t i = 0; i < sp.nSwitches; ++i) sp.target[i] = s.draw(sim::L_SCHED, 16);
	for (uint32_t i = 0; i < 64; ++i) sp.onExit[i] = s.draw(sim::L_SCHED, 16);
	// switches placed at atomic operations (they exist as scheduling points in the tsan flavour only; the draws are made in both)
	sp.atomicOn = s.chance(sim::L_SCHED, 1, 2);
	{
		static const uint32_t dens[] = { 2, 4, 16 };
		const uint32_t den = s.pick(sim::L_SCHED, dens);
		for (uint32_t i = 0; i < 256; ++i) sp.atomicSwitch[i] = sp.atomicOn && s.chance(sim::L_SCHED, 1, den) ? 1 : 0;
		for (uint32_t i = 0; i < 64; ++i) sp.atomicTarget[i] = s.draw(sim::L_SCHED, 16);
	}
	ctx.note("threads=" + std::to_string(T) + " schedule=" + (pct ? "pct" : "walk") + " switches<=" + std::to_string(sp.nSwitches) + " sequential-steps=" + std::to_string(seqSteps));
	ctx.note("ops: " + plan);
	ctx.count(pct ? "sched.pct" : "sched.walk");
	ctx.count("threads." + std::to_string(T));

	Batch batch;
	batch.shared = &sh;
	batch.work = &work;
	const sim::SchedResult sr = sim::sched_run(sp, ThreadBody, &batch);
	if (g_coldRun) { sequential(); ctx.count("cold_runs"); }
	sim::ev(sim::EV_S_SWITCH, sr.switches, sr.switchHash);
	ctx.note("scheduled run: steps=" + std::to_string(sr.steps) + " switches=" + std::to_string(sr.switches));
	ctx.count("switches", sr.switches);
	ctx.count("atomic_points", sr.atomicPoints);
	ctx.count("atomic_switches", sr.atomicSwitches);
	if (sr.atomicSwitches) sim::probe("switch-at-atomic-operation");

	Outcome out;
	out.cfgKey = std::to_string(sr.switchHash);
	out.nontrivial = sr.switches > T;
	if (sr.switches > T) sim::probe("preemptive-switch");
	for (uint32_t t = 0; t < T; ++t)
	{
		for (size_t i = 0; i < work[t].ops.size(); ++i)
		{
			if (work[t].results[i] != expected[t][i])
			{
				const Op& op = work[t].ops[i];
				return Violation("RACE_RESULT", std::string("op=") + OpName(op.kind) + " archive=" + ArchiveName(op.archive) + (op.stream ? " entry=stream" : " entry=mem"),
					"thread " + std::to_string(t) + " operation #" + std::to_string(i) + " gave a different result under the schedule: sequential=" + expected[t][i].substr(0, 200) + " scheduled=" + work[t].results[i].substr(0, 200));
			}
		}
	}
	return out;
}

} // namespace hz
