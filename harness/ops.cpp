#include "common.h"
#include "zoo_gen.h"
#include <sstream>

namespace vm {
const BitSerializer::SerializationOptions kLibraryDefaults{};
ArchiveOps& GetOps(int a)
{
	switch (a)
	{
	case A_MSGPACK: return MsgPackOps();
	case A_JSON: return JsonOps();
	case A_XML: return XmlOps();
	default: return CsvOps();
	}
}
}

namespace hz {
// touch every lazily initialised static before the first seeded run (locale facets, iostream init, enum tables, pair.h key names)
void WarmUp()
{
	static bool done = false;
	if (done) return;
	done = true;
	for (int a = 0; a < A_COUNT; ++a)
	{
		DynNode root(K::Arr);
		DynNode row(K::Obj);
		Key k; k.s = "a";
		row.keys.push_back(k);
		row.items.emplace_back(K::I32);
		Key k2; k2.s = "b";
		row.keys.push_back(k2);
		DynNode sv(K::Str16); sv.s16 = u"x";
		row.items.push_back(sv);
		root.items.push_back(row);
		SerializationOptions o;
		o.streamOptions.writeBom = false;
		std::string bytes;
		try { GetOps(a).SaveDyn(root, o, IoOut{ &bytes, nullptr }); } catch (...) {}
		DynNode skel = Skeleton(root);
		try { GetOps(a).LoadDyn(skel, o, IoIn{ &bytes, nullptr }); } catch (...) {}
		std::stringstream ss(bytes);
		DynNode skel2 = Skeleton(root);
		try { GetOps(a).LoadDyn(skel2, o, IoIn{ nullptr, &ss }); } catch (...) {}
		std::ostringstream os;
		try { GetOps(a).SaveDyn(root, o, IoOut{ nullptr, &os }); } catch (...) {}
		Zoo z;
		z.rows.emplace_back();
		std::string zb;
		try { GetOps(a).SaveZoo(z, o, IoOut{ &zb, nullptr }); } catch (...) {}
		Zoo z2;
		try { GetOps(a).LoadZoo(z2, o, IoIn{ &zb, nullptr }); } catch (...) {}
		// the same with every member populated (fixed choices), through memory and streams
		for (uint64_t fixedSeed = 1; fixedSeed <= 3; ++fixedSeed)
		{
			sim::Source fixed(0x5EED0000 + fixedSeed);
			ZooGenCfg zg;
			zg.archive = a;
			zg.maxLen = 4;
			Zoo full;
			GenZoo(fixed, sim::L_DOC, full, zg);
			if (a == A_CSV) EnsureCsvRow(full);
			std::string fb;
			try { GetOps(a).SaveZoo(full, o, IoOut{ &fb, nullptr }); } catch (...) {}
			std::ostringstream fos;
			try { GetOps(a).SaveZoo(full, o, IoOut{ nullptr, &fos }); } catch (...) {}
			Zoo back;
			back.skipIntKeyMaps = full.skipIntKeyMaps;
			back.csvRoot = full.csvRoot;
			try { GetOps(a).LoadZoo(back, o, IoIn{ &fb, nullptr }); } catch (...) {}
			std::stringstream fss(fb);
			Zoo back2;
			back2.skipIntKeyMaps = full.skipIntKeyMaps;
			back2.csvRoot = full.csvRoot;
			try { GetOps(a).LoadZoo(back2, o, IoIn{ nullptr, &fss }); } catch (...) {}
		}
	}
}
}
