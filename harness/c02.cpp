// C02 — no input can crash, hang or exhaust the loader (string converters as a by-product).
// Fault model: the document is a file on a simulated disk that has gone bad (bit flips, torn/duplicated/lost/garbage
// blocks, inflated length fields, truncation, nesting bombs); the same bad file is then delivered through every entry
// (memory, stream file/pipe, delivery schedules, chunk knobs) with the allocator ledger and the step clocks watching.
#include <chrono>
#include "scen_util.h"
#include "zoo_gen.h"
#include "bitserializer/types/std/chrono.h"

namespace hz {

static const size_t kMaxDoc = 65536;
static const size_t kMaxBomb = 3u << 20;   // nesting bombs may be deeper than a document is long: up to 400 000 levels

static int64_t MemoryBound(size_t inputBytes) { return (1ll << 20) + static_cast<int64_t>(inputBytes) * (64 + 2 * 160); }

template <class T>
static bool ConvOne(std::string_view sv, std::string& bad)
{
	CallResult r = Guarded([&] { (void)BitSerializer::Convert::To<T>(sv); });
	if (!r.isStd) { bad = "non-std exception"; return false; }
	return true;
}

template <class T, class TSym>
static bool ConvWide(const std::basic_string<TSym>& text, std::string& bad)
{
	CallResult r = Guarded([&] { (void)BitSerializer::Convert::To<T>(std::basic_string_view<TSym>(text)); });
	if (!r.isStd) { bad = "non-std exception"; return false; }
	return true;
}
// the same converters fed with 16- and 32-bit code units of any value (a wide string read from a damaged file)
template <class TSym>
static bool WideConverters(Source& s, const std::string& bytes, std::string& bad)
{
	std::basic_string<TSym> text;
	const size_t a = s.draw(sim::L_FAULT, static_cast<uint32_t>(bytes.size()));
	const size_t n = std::min<size_t>((bytes.size() - a) / sizeof(TSym), s.draw(sim::L_FAULT, 12));
	const uint32_t lead = s.draw(sim::L_FAULT, 3);
	for (uint32_t i = 0; i < lead; ++i) text.push_back(static_cast<TSym>(i % 2 ? '\t' : ' '));
	for (size_t i = 0; i < n; ++i) { TSym u; memcpy(&u, bytes.data() + a + i * sizeof(TSym), sizeof(TSym)); text.push_back(u); }
	if (s.chance(sim::L_FAULT, 1, 2)) { static const uint32_t edge[] = { 0x80000000u, 0xFFFFFFFFu, 0x100, 0xFFFF, 0x7FFFFFFF, 0xD800 }; text.insert(text.begin() + std::min<size_t>(lead, text.size()), static_cast<TSym>(s.pick(sim::L_FAULT, edge))); }
	if (s.chance(sim::L_FAULT, 1, 2)) { text.push_back(static_cast<TSym>('1')); text.push_back(static_cast<TSym>('2')); }
	return ConvWide<int32_t>(text, bad) && ConvWide<uint64_t>(text, bad) && ConvWide<int8_t>(text, bad) && ConvWide<double>(text, bad) && ConvWide<float>(text, bad) && ConvWide<bool>(text, bad)
		&& ConvWide<BitSerializer::ArchiveType>(text, bad) && ConvWide<std::chrono::seconds>(text, bad) && ConvWide<std::chrono::system_clock::time_point>(text, bad) && ConvWide<std::string>(text, bad);
}

// direct feed of (corrupted) cell texts to the converters: input generation without a schedule, kept because it is free
static bool ConvertersByProduct(Source& s, const std::string& bytes, std::string& bad)
{
	if (bytes.empty()) return true;
	for (int k = 0; k < 3; ++k)
	{
		const size_t a = s.draw(sim::L_FAULT, static_cast<uint32_t>(bytes.size()));
		const size_t len = std::min<size_t>(bytes.size() - a, 1 + s.draw(sim::L_FAULT, 40));
		const std::string_view sv(bytes.data() + a, len);
		if (!ConvOne<int8_t>(sv, bad) || !ConvOne<uint16_t>(sv, bad) || !ConvOne<int32_t>(sv, bad) || !ConvOne<uint64_t>(sv, bad) || !ConvOne<int64_t>(sv, bad)
			|| !ConvOne<float>(sv, bad) || !ConvOne<double>(sv, bad) || !ConvOne<bool>(sv, bad) || !ConvOne<BitSerializer::ArchiveType>(sv, bad)
			|| !ConvOne<std::chrono::seconds>(sv, bad) || !ConvOne<std::chrono::nanoseconds>(sv, bad)
			|| !ConvOne<std::chrono::system_clock::time_point>(sv, bad) || !ConvOne<std::chrono::time_point<std::chrono::system_clock, std::chrono::seconds>>(sv, bad)
			|| !ConvOne<std::u16string>(sv, bad) || !ConvOne<std::u32string>(sv, bad))
		{
			bad += " for text " + sim::hex(std::string(sv));
			return false;
		}
	}
	return true;
}

// ISO-8601-shaped texts from a small grammar with extreme fields (the kind of cell a date column of a damaged file holds)
static std::string IsoNumber(Source& s)
{
	static const char* nums[] = { "0", "1", "00", "7", "59", "60", "61", "99", "1970", "2000", "0000", "9999", "10000", "292277026596", "106751991167300",
		"2562047788015215", "153722867280912930", "9223372036854775807", "9223372036854775808", "18446744073709551615", "18446744073709551616", "99999999999999999999" };
	if (s.chance(sim::L_FAULT, 1, 4)) { std::string r; const uint32_t n = 1 + s.draw(sim::L_FAULT, 21); for (uint32_t i = 0; i < n; ++i) r.push_back(static_cast<char>('0' + s.draw(sim::L_FAULT, 10))); return r; }
	return s.pick(sim::L_FAULT, nums);
}
static std::string IsoFraction(Source& s)
{
	static const uint32_t lens[] = { 0, 1, 3, 6, 9, 10, 11, 12, 19, 25 };
	const uint32_t n = s.pick(sim::L_FAULT, lens);
	if (n == 0) return s.chance(sim::L_FAULT, 1, 4) ? "." : "";
	const uint32_t zeros = s.chance(sim::L_FAULT, 1, 2) ? s.draw(sim::L_FAULT, n + 1) : 0;   // zero padding in front
	std::string r = s.chance(sim::L_FAULT, 1, 8) ? "," : ".";
	for (uint32_t i = 0; i < n; ++i) r.push_back(i < zeros ? '0' : static_cast<char>('0' + s.draw(sim::L_FAULT, 10)));
	return r;
}
static std::string IsoText(Source& s)
{
	std::string r;
	if (s.chance(sim::L_FAULT, 1, 2))
	{
		// date-time
		static const char* signs[] = { "", "", "", "-", "+" };
		static const char* two[] = { "01", "02", "12", "00", "13", "28", "29", "30", "31", "32", "23", "24", "59", "60", "61", "99", "1", "001" };
		r = s.pick(sim::L_FAULT, signs);
		r += s.chance(sim::L_FAULT, 1, 2) ? IsoNumber(s) : std::string(s.chance(sim::L_FAULT, 1, 2) ? "2000" : "1600");
		r += "-"; r += s.pick(sim::L_FAULT, two); r += "-"; r += s.pick(sim::L_FAULT, two);
		if (!s.chance(sim::L_FAULT, 1, 8))
		{
			r += s.chance(sim::L_FAULT, 1, 8) ? " " : "T";
			r += s.pick(sim::L_FAULT, two); r += ":"; r += s.pick(sim::L_FAULT, two); r += ":"; r += s.pick(sim::L_FAULT, two);
			r += IsoFraction(s);
		}
		static const char* zones[] = { "Z", "Z", "", "z", "+01:00", "-00:00", "+24:00", "+0100" };
		r += s.pick(sim::L_FAULT, zones);
	}
	else
	{
		// duration
		static const char* signs[] = { "", "", "-", "+" };
		r = s.pick(sim::L_FAULT, signs);
		r += "P";
		if (s.chance(sim::L_FAULT, 1, 4)) r += IsoNumber(s) + "W";
		if (s.chance(sim::L_FAULT, 1, 2)) r += IsoNumber(s) + "D";
		if (s.chance(sim::L_FAULT, 3, 4))
		{
			r += "T";
			if (s.chance(sim::L_FAULT, 1, 2)) r += IsoNumber(s) + "H";
			if (s.chance(sim::L_FAULT, 1, 2)) r += IsoNumber(s) + "M";
			if (s.chance(sim::L_FAULT, 1, 2)) r += IsoNumber(s) + IsoFraction(s) + "S";
		}
	}
	// occasionally one more byte-level accident on top
	if (!r.empty() && s.chance(sim::L_FAULT, 1, 6)) r[s.draw(sim::L_FAULT, static_cast<uint32_t>(r.size()))] = static_cast<char>(s.draw(sim::L_FAULT, 128));
	return r;
}

static bool ChronoConverters(Source& s, std::string& bad)
{
	using namespace std::chrono;
	for (int k = 0; k < 2; ++k)
	{
		const std::string text = IsoText(s);
		const std::string_view sv(text);
		if (!ConvOne<seconds>(sv, bad) || !ConvOne<nanoseconds>(sv, bad) || !ConvOne<milliseconds>(sv, bad) || !ConvOne<minutes>(sv, bad) || !ConvOne<hours>(sv, bad)
			|| !ConvOne<duration<int32_t>>(sv, bad)
			|| !ConvOne<system_clock::time_point>(sv, bad) || !ConvOne<time_point<system_clock, seconds>>(sv, bad) || !ConvOne<time_point<system_clock, milliseconds>>(sv, bad)
			|| !ConvOne<time_point<system_clock, hours>>(sv, bad) || !ConvOne<BitSerializer::CRawTime>(sv, bad))
		{
			bad += " for text " + text;
			return false;
		}
		const std::u16string wide(text.begin(), text.end());
		CallResult r = Guarded([&] { (void)BitSerializer::Convert::To<system_clock::time_point>(std::u16string_view(wide)); (void)BitSerializer::Convert::To<seconds>(std::u16string_view(wide)); });
		if (!r.isStd) { bad = "non-std exception for text " + text; return false; }
	}
	return true;
}

// The stream operators the library generates for registered enums (DECLARE_ENUM_STREAM_OPS): tokens, blanks and junk from a
// stream that is healthy, already failed, or fails in the middle of the token.
static Outcome EnumStreamLeg(RunCtx& ctx)
{
	Source& s = ctx.src;
	Outcome out;
	out.cfgKey = "enum-stream";
	ctx.count("leg.enum_stream");
	static const char* const tokens[] = { "Red", "Green", "Blue", "red", "BLUE", "Purple", "", " ", "Red Green", "\tBlue\n", "Re", "Redd", "0", "-1" };
	std::string text = s.pick(sim::L_DOC, tokens);
	if (s.chance(sim::L_DOC, 1, 4)) text = ToUtf8(GenText(s, sim::L_DOC, TextProfile::Any, 40));
	if (s.chance(sim::L_DOC, 1, 3)) text = "  " + text;
	if (s.chance(sim::L_DOC, 1, 3)) text += " x";
	const uint32_t state = s.draw(sim::L_FAULT, 4);   // 0 healthy, 1 failbit set before, 2 device error at byte k (badbit), 3 the same, reported by throwing
	sim::InFaults f;
	if (state >= 2) f.failAt = s.draw(sim::L_FAULT, static_cast<uint32_t>(text.size() + 1));
	const InCfg c = DrawStreamCfg(s, sim::L_IO);
	sim::SimIStreamBuf sb(text, c.seekable, c.delivery, f);
	std::istream is(&sb);
	if (state == 1) is.setstate(std::ios::failbit);
	if (state == 3) is.exceptions(std::ios::badbit);
	ctx.note("enum stream leg: text=" + sim::hex(text, 60) + " state=" + std::to_string(state) + (state >= 2 ? " failAt=" + std::to_string(f.failAt) : ""));
	ZooColor color = ZooColor::Red;
	CallResult r;
	int64_t peak = 0;
	sim::steps_begin(200000);
	sim::stream_call_budget(20000);
	{
		sim::AllocArm arm;
		r = Guarded([&] { is >> color; });
		peak = sim::alloc().peakBytes;
	}
	sim::steps_end();
	ctx.note("  -> " + r.cat + " " + r.what);
	if (!r.isStd) return Violation("WRONG_EXCEPTION", "leg=enum_stream", "exception not derived from std::exception");
	if (peak > (1 << 20)) return Violation("MEMORY", "leg=enum_stream what=peak", "reading an enum from a " + std::to_string(text.size()) + "-byte stream allocated " + std::to_string(peak) + " bytes");
	std::string back;
	CallResult w = Guarded([&] { std::ostringstream os; os << color; back = os.str(); });
	if (!w.ok) return Violation("WRONG_EXCEPTION", "leg=enum_stream dir=out", "writing an enum to a stream threw " + w.cat);
	out.nontrivial = state != 0;
	return out;
}

// The UTF transcoders with every kind of error mark the API accepts (none, empty, default, long) on code-unit sequences that are
// dominated by ill-formed units: the output grows by one mark per bad unit, whatever the size the transcoder planned for.
template <class TIn, class TOut>
static bool TranscodeOne(const std::basic_string<TIn>& in, bool skip, int markKind, std::string& bad, size_t& outUnits)
{
	namespace U = BitSerializer::Convert::Utf;
	static const TOut longMark[] = { '<', 'I', 'N', 'V', 'A', 'L', 'I', 'D', '-', 'S', 'E', 'Q', 'U', 'E', 'N', 'C', 'E', '>', 0 };
	static const TOut emptyMark[] = { 0 };
	std::basic_string<TOut> out;
	CallResult r = Guarded([&]
	{
		const auto policy = skip ? U::UtfEncodingErrorPolicy::Skip : U::UtfEncodingErrorPolicy::ThrowError;
		if (markKind == 0) (void)U::Transcode(in.cbegin(), in.cend(), out, policy);
		else (void)U::Transcode(in.cbegin(), in.cend(), out, policy, markKind == 1 ? static_cast<const TOut*>(nullptr) : markKind == 2 ? emptyMark : longMark);
	});
	outUnits = out.size();
	if (!r.isStd) { bad = "non-std exception from Utf::Transcode"; return false; }
	return true;
}

static Outcome UtfMarkLeg(RunCtx& ctx)
{
	Source& s = ctx.src;
	Outcome out;
	out.cfgKey = "utf-mark";
	ctx.count("leg.utf_error_mark");
	const uint32_t width = s.draw(sim::L_DOC, 3);             // source code units: 0 bytes, 1 16-bit, 2 32-bit
	const uint32_t n = GenLength(s, sim::L_DOC, 1200);
	static const uint32_t dens[] = { 1, 2, 8 };
	const uint32_t badOneIn = s.pick(sim::L_DOC, dens);       // 1: every unit is ill-formed
	const bool skip = !s.chance(sim::L_CFG, 1, 4);
	const int markKind = static_cast<int>(s.draw(sim::L_CFG, 4));   // 0 default, 1 nullptr, 2 empty, 3 long
	std::string u8; std::u16string u16; std::u32string u32;
	for (uint32_t i = 0; i < n; ++i)
	{
		const bool badUnit = s.chance(sim::L_DOC, 1, badOneIn);
		if (width == 0) { static const unsigned char b[] = { 0xFF, 0x80, 0xC3, 0xE4, 0xF0, 0xC0 }; u8.push_back(badUnit ? static_cast<char>(s.pick(sim::L_DOC, b)) : static_cast<char>('a' + i % 26)); }
		else if (width == 1) { static const char16_t b[] = { 0xDC00, 0xDFFF, 0xD800, 0xDBFF }; u16.push_back(badUnit ? s.pick(sim::L_DOC, b) : static_cast<char16_t>(u'a' + i % 26)); }
		else { static const char32_t b[] = { 0x110000, 0xD800, 0xDFFF, 0xFFFFFFFF }; u32.push_back(badUnit ? s.pick(sim::L_DOC, b) : static_cast<char32_t>(U'a' + i % 26)); }
	}
	ctx.note("utf mark leg: source width=" + std::to_string(width) + " units=" + std::to_string(n) + " ill-formed 1 in " + std::to_string(badOneIn) + (skip ? " policy=skip" : " policy=throw") + " mark kind=" + std::to_string(markKind));
	std::string bad;
	size_t o1 = 0, o2 = 0;
	bool ok = true;
	int64_t peak = 0;
	sim::steps_begin(3000ull * (n * 4 + 4096));
	{
		sim::AllocArm arm;
		if (width == 0) ok = TranscodeOne<char, char16_t>(u8, skip, markKind, bad, o1) && TranscodeOne<char, char32_t>(u8, skip, markKind, bad, o2);
		else if (width == 1) ok = TranscodeOne<char16_t, char>(u16, skip, markKind, bad, o1) && TranscodeOne<char16_t, char32_t>(u16, skip, markKind, bad, o2);
		else ok = TranscodeOne<char32_t, char>(u32, skip, markKind, bad, o1) && TranscodeOne<char32_t, char16_t>(u32, skip, markKind, bad, o2);
		peak = sim::alloc().peakBytes;
	}
	// the stream reader takes the same mark
	if (ok && width == 1)
	{
		std::string bytes;
		for (char16_t c : u16) { bytes.push_back(static_cast<char>(c & 0xFF)); bytes.push_back(static_cast<char>(c >> 8)); }
		bytes.insert(0, "\xFF\xFE");
		const InCfg c = DrawStreamCfg(s, sim::L_IO);
		sim::SimIStreamBuf sb(bytes, c.seekable, c.delivery, {});
		std::istream is(&sb);
		static const char longMark[] = "<INVALID-SEQUENCE>";
		CallResult r = Guarded([&]
		{
			namespace U = BitSerializer::Convert::Utf;
			U::CEncodedStreamReader<char> reader(is, skip ? U::UtfEncodingErrorPolicy::Skip : U::UtfEncodingErrorPolicy::ThrowError, markKind == 3 ? longMark : markKind == 2 ? "" : markKind == 1 ? nullptr : U::Detail::GetDefaultErrorMark<char>());
			std::string text;
			for (int guard = 0; guard < 100000; ++guard) { if (reader.ReadChunk(text) != U::EncodedStreamReadResult::Success) break; }
		});
		if (!r.isStd) { ok = false; bad = "non-std exception from CEncodedStreamReader"; }
	}
	sim::steps_end();
	if (!ok) return Violation("WRONG_EXCEPTION", "leg=utf_mark", bad);
	if (peak > (1 << 20) + static_cast<int64_t>(n) * 200) return Violation("MEMORY", "leg=utf_mark what=peak", "transcoding " + std::to_string(n) + " units allocated " + std::to_string(peak) + " bytes");
	out.nontrivial = n > 16 && markKind == 3;
	if (out.nontrivial) sim::probe("long-error-mark-on-illformed-input");
	(void)o1; (void)o2;
	return out;
}

static std::string NestBomb(Source& s, int archive)
{
	static const uint32_t depths[] = { 50, 500, 3000, 20000, 60000, 150000, 400000 };
	const uint32_t n = s.pick(sim::L_FAULT, depths);
	std::string b;
	if (archive == A_MSGPACK)
	{
		const uint32_t how = s.draw(sim::L_FAULT, 3);
		if (how == 0) b.assign(n, static_cast<char>(0x91));                       // array(1) of array(1) of ...
		else if (how == 1) for (uint32_t i = 0; i < n / 2; ++i) { b.push_back(static_cast<char>(0x81)); b.push_back(static_cast<char>(0x01)); }   // map{1: map{1: ...
		else for (uint32_t i = 0; i < n / 3; ++i) { b.push_back(static_cast<char>(0xdc)); b.push_back(0); b.push_back(1); }
		b.push_back(0);
	}
	else if (archive == A_JSON)
	{
		// half of the bombs are closed properly: a well-formed document whose DOM is really built (and has to be destroyed again)
		const bool closed = s.chance(sim::L_FAULT, 1, 2);
		if (s.chance(sim::L_FAULT, 1, 2)) { b.assign(n, '['); b += "1"; if (closed) b.append(n, ']'); }
		else { uint32_t k = 0; for (; k < n / 5; ++k) b += "{\"a\":"; b += "1"; if (closed) b.append(k, '}'); }
	}
	else if (archive == A_XML)
	{
		const bool closed = s.chance(sim::L_FAULT, 1, 2);
		b = "<?xml version=\"1.0\"?>";
		uint32_t k = 0;
		for (; k < n / 3; ++k) b += "<a>";
		if (closed) for (uint32_t i = 0; i < k; ++i) b += "</a>";
	}
	else
	{
		b.assign(n, '"');
	}
	if (b.size() > kMaxBomb) b.resize(kMaxBomb);
	return b;
}

Outcome RunC02(RunCtx& ctx)
{
	Source& s = ctx.src;
	if (s.chance(sim::L_CFG, 1, 32)) return EnumStreamLeg(ctx);
	if (s.chance(sim::L_CFG, 1, 32)) return UtfMarkLeg(ctx);
	const int archive = static_cast<int>(s.draw(sim::L_CFG, A_COUNT));
	ArchiveOps& ops = GetOps(archive);
	const std::string an = ArchiveName(archive);
	SerializationOptions o = GenLoadOptions(s, sim::L_CFG, archive);
	const bool zooFamily = s.chance(sim::L_CFG, 1, 4);
	Outcome out;
	out.cfgKey = an + (zooFamily ? "|zoo" : "|dyn");
	ctx.note("archive=" + an + " family=" + (zooFamily ? "zoo" : "dyn") + " options: " + OptStr(o));

	// ---- the valid document ----
	std::string bytes;
	DynNode doc, otherShape;
	bool useOtherShape = false;
	if (zooFamily)
	{
		Zoo z;
		ZooGenCfg zg;
		zg.archive = archive;
		zg.jumboMember = DrawJumbo(s, sim::L_CFG, 6);
		if (zg.jumboMember >= 0 && archive != A_CSV) ctx.count(std::string("jumbo.") + JumboName(zg.jumboMember));
		GenZoo(s, sim::L_DOC, z, zg);
		CallResult sv = SaveZooWith(ops, z, bytes, o, OutCfg{});
		if (!sv.isStd) return Violation("WRONG_EXCEPTION", "archive=" + an + " dir=save", "non-std exception");
	}
	else
	{
		GenCfg g;
		g.archive = archive;
		g.allowIntKeys = archive == A_MSGPACK;
		if (s.chance(sim::L_CFG, 1, 2)) g.kindMask = s.draw(sim::L_CFG, 0xFFFFFFFFu) | (1u << static_cast<int>(K::I32));
		doc = GenDocument(s, sim::L_DOC, g);
		// text archives: 1 run in 3 puts the document on the disk in a seeded UTF encoding (with or without BOM), the way the stream writer does
		OutCfg docOut;
		if (archive != A_MSGPACK && s.chance(sim::L_CFG, 1, 3))
		{
			docOut.stream = true;
			o.streamOptions.encoding = static_cast<BitSerializer::Convert::Utf::UtfType>(s.draw(sim::L_CFG, 5));
			o.streamOptions.writeBom = s.chance(sim::L_CFG, 1, 2);
			ctx.count("enc." + std::to_string(static_cast<int>(o.streamOptions.encoding)) + (o.streamOptions.writeBom ? "+bom" : ""));
		}
		CallResult sv = SaveDynWith(ops, doc, bytes, o, docOut);
		if (!sv.isStd) return Violation("WRONG_EXCEPTION", "archive=" + an + " dir=save", "non-std exception");
		useOtherShape = s.chance(sim::L_CFG, 1, 3);
		if (useOtherShape)
		{
			GenCfg g2 = g;
			g2.maxNodes = 12;
			otherShape = GenDocument(s, sim::L_DOC, g2);
		}
		// 1 run in 4: the reading program has Required() members the document lacks, so paths are built from the keys of the open scopes
		if (s.chance(sim::L_PROG, 1, 4))
		{
			uint32_t idx = 0;
			ForEachNode(useOtherShape ? otherShape : doc, [&](DynNode& n)
			{
				if (n.kind != K::Obj || !s.chance(sim::L_PROG, 1, 2)) return;
				Key k;
				k.s = "reqAbsent" + std::to_string(idx++);
				n.keys.push_back(k);
				DynNode r(K::I32);
				r.required = true;
				n.items.push_back(r);
			});
			if (idx) ctx.count("failing_validators");
		}
		if (ctx.describe) ctx.note("document: " + Pretty(doc) + (useOtherShape ? "  target shape: " + Pretty(otherShape) : ""));
	}
	const std::string validBytes = bytes;

	// ---- the disk goes bad ----
	const uint32_t mode = s.draw(sim::L_FAULT, 16);
	std::string what;
	if (mode == 15)
	{
		const uint32_t n = s.draw(sim::L_FAULT, 65);
		bytes.clear();
		for (uint32_t i = 0; i < n; ++i) bytes.push_back(static_cast<char>(s.draw(sim::L_FAULT, 256)));
		what = "garbage(" + std::to_string(n) + ")";
		ctx.count("fault.garbage");
	}
	else if (mode == 14 && s.chance(sim::L_FAULT, 1, 4))
	{
		bytes = NestBomb(s, archive);
		what = "nest-bomb(" + std::to_string(bytes.size()) + ")";
		ctx.count("fault.nest_bomb");
	}
	else
	{
		const uint32_t n = 1 + s.draw(sim::L_FAULT, 4);
		for (uint32_t i = 0; i < n; ++i) what += CorruptOnce(s, sim::L_FAULT, bytes, archive == A_MSGPACK, ctx) + " ";
	}
	if (bytes.size() > (mode == 14 ? kMaxBomb : kMaxDoc)) bytes.resize(mode == 14 ? kMaxBomb : kMaxDoc);
	out.nontrivial = bytes != validBytes;
	ctx.note("corruption: " + what);
	if (ctx.describe) ctx.note("bytes(" + std::to_string(bytes.size()) + "): " + sim::hex(bytes, 400));
	const uint64_t budget = 3000ull * (bytes.size() + 4096);
	sim::stream_call_budget(64 * (bytes.size() + 4096) * 8);

	// ---- every entry ----
	const uint32_t nStream = 1 + s.draw(sim::L_IO, 2);
	const bool readOnlyEntry = s.chance(sim::L_IO, 1, 2);   // memory entry once more, from a read-only mapping with a guard page behind it
	for (uint32_t j = 0; j <= nStream + (readOnlyEntry ? 1 : 0); ++j)
	{
		InCfg c;
		if (j > nStream) { c.readOnlyMem = true; ctx.count("entry.readonly_view"); }
		else if (j > 0)
		{
			c = DrawStreamCfg(s, sim::L_IO);
			// 1 stream in 4: the caller has enabled exceptions for failbit and/or eofbit on its stream
			if (s.chance(sim::L_IO, 1, 4)) { c.excMask = DrawExceptionMask(s, sim::L_IO); ctx.count("stream.exception_mask"); }
		}
		ctx.note("load #" + std::to_string(j) + " via " + c.str());
		CallResult r;
		int64_t peak = 0;
		uint64_t refused = 0;
		sim::steps_begin(budget);
		if (zooFamily)
		{
			Zoo target;
			{
				sim::AllocArm arm;
				r = LoadZooWith(ops, target, bytes, o, c);
				peak = sim::alloc().peakBytes;
				refused = sim::alloc().refused;
			}
		}
		else
		{
			DynNode target = Skeleton(useOtherShape ? otherShape : doc);
			{
				sim::AllocArm arm;
				r = LoadDynWith(ops, target, bytes, o, c);
				peak = sim::alloc().peakBytes;
				refused = sim::alloc().refused;
			}
		}
		sim::steps_end();
		const std::string tags = "archive=" + an + " family=" + (zooFamily ? "zoo" : "dyn") + " entry=" + (c.stream ? (c.seekable ? "stream:file" : "stream:pipe") : (c.readOnlyMem ? "mem:readonly-view" : "mem"));
		ctx.note("  -> " + r.cat + " " + r.what + " peak=" + std::to_string(peak));
		if (!r.isStd) return Violation("WRONG_EXCEPTION", tags, "exception not derived from std::exception");
		if (refused > 0 || peak > MemoryBound(bytes.size()))
		{
			return Violation("MEMORY", tags + " what=" + (refused ? "huge_request" : "peak"),
				"loading " + std::to_string(bytes.size()) + " bytes requested memory out of proportion: peak=" + std::to_string(peak) + " bytes, single requests above 256 MiB: " + std::to_string(refused) + " (" + r.cat + ")");
		}
		if (r.ok) sim::probe("corrupted-accepted"); else sim::probe("corrupted-rejected");
		out.cfgKey += r.ok ? "+" : "-";
	}

	std::string bad;
	if (!ConvertersByProduct(s, bytes, bad)) return Violation("WRONG_EXCEPTION", "archive=" + an + " what=converter", bad);
	if (!ChronoConverters(s, bad)) return Violation("WRONG_EXCEPTION", "archive=" + an + " what=chrono_converter", bad);
	if (!bytes.empty() && (!WideConverters<char16_t>(s, bytes, bad) || !WideConverters<char32_t>(s, bytes, bad) || !WideConverters<wchar_t>(s, bytes, bad)))
		return Violation("WRONG_EXCEPTION", "archive=" + an + " what=wide_converter", bad);
	return out;
}

} // namespace hz
