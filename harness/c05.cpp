// C05 — a skipped value never disturbs the loading of its neighbours.
// Fault model: typed corruption of the store (a stored value replaced by a value of another kind / out of range);
// recovery mechanism under test: the Skip policies. Oracle: differential against the same load of the unfaulted document.
#include "scen_util.h"

namespace hz {

struct PathRef { std::vector<size_t> idx; };

static void MarkAll(DynNode& n)
{
	if (n.kind != K::Arr && n.kind != K::Obj) SetMarker(n);
	for (auto& c : n.items) MarkAll(c);
}

static void CollectPaths(const DynNode& n, std::vector<size_t>& cur, std::vector<PathRef>& out)
{
	for (size_t i = 0; i < n.items.size(); ++i)
	{
		cur.push_back(i);
		out.push_back(PathRef{ cur });
		CollectPaths(n.items[i], cur, out);
		cur.pop_back();
	}
}

static DynNode& At(DynNode& root, const PathRef& p)
{
	DynNode* n = &root;
	for (auto i : p.idx) n = &n->items[i];
	return *n;
}

static bool IsPrefix(const PathRef& a, const PathRef& b)
{
	if (a.idx.size() > b.idx.size()) return false;
	for (size_t i = 0; i < a.idx.size(); ++i) if (a.idx[i] != b.idx[i]) return false;
	return true;
}

static std::string PathStr(const PathRef& p)
{
	std::string s;
	for (auto i : p.idx) s += "/" + std::to_string(i);
	return s;
}

// A 5-byte string is saved as A5 + 5 bytes; the same 6 bytes with D6 in front are fixext4 of application type 5 with the payload
// 11 12 13 14 (four small integers if someone parses the payload as values): the offence is saved as the string and patched.
static const char kForeignExtPlaceholder[] = "\x05\x11\x12\x13\x14";
static uint32_t PatchForeignExt(std::string& bytes)
{
	uint32_t n = 0;
	const std::string pat = std::string("\xA5") + kForeignExtPlaceholder;
	for (size_t at = bytes.find(pat); at != std::string::npos; at = bytes.find(pat, at + 1)) { bytes[at] = static_cast<char>(0xD6); ++n; }
	return n;
}

// skipped values come in every size class (str8/str16, bin8/bin16 headers with length bytes on both sides of 0x80)
static std::string Padded(Source& s, const char* head)
{
	static const uint32_t pads[] = { 0, 0, 0, 0, 29, 30, 125, 126, 127, 150, 253, 254, 300 };
	return std::string(head) + std::string(s.pick(sim::L_FAULT, pads), 'p');
}

// Builds a replacement that is a definite offence for a target of kind `target` in this archive; returns false if none
static bool MakeOffence(Source& s, int archive, K target, DynNode& repl, std::string& name, bool& mayLoad)
{
	mayLoad = false;
	const bool text = archive == A_XML || archive == A_CSV;
	std::vector<int> opts;   // 0 str, 1 arr, 2 obj, 3 null, 4 float 1.5, 5 out-of-range, 6 bin, 7 int, 8 array-of-bytes, 9 timestamp
	if (IsInteger(target)) { opts = { 0, 3, 4, 5 }; if (archive != A_CSV) { opts.push_back(1); opts.push_back(2); } if (archive == A_MSGPACK) { opts.push_back(6); opts.push_back(9); opts.push_back(9); } if (archive == A_JSON) opts.push_back(9); }
	else if (target == K::Ts) { opts = { 0, 3 }; if (archive != A_CSV) { opts.push_back(1); opts.push_back(2); } if (!text) { opts.push_back(7); opts.push_back(4); opts.push_back(10); } }
	else if (target == K::Bool) { opts = { 0, 5 }; if (archive != A_CSV) { opts.push_back(1); opts.push_back(2); } }
	else if (target == K::F32 || target == K::F64) { opts = { 0, 3 }; if (archive != A_CSV) { opts.push_back(1); opts.push_back(2); } }
	else if (IsString(target)) { if (archive == A_CSV) return false; opts = { 1, 2, 3 }; if (!text) opts.push_back(7); }
	else if (target == K::Arr) { opts = { 7, 0 }; if (archive != A_XML) opts.push_back(2); }
	else if (target == K::Obj) { opts = { 7, 0 }; if (archive != A_XML) opts.push_back(1); }
	else if (target == K::Bin) { opts = { 0 }; if (archive != A_XML) opts.push_back(2); if (!text) opts.push_back(7);   // XML cannot tell an object from an array of values
 if (archive == A_MSGPACK) { opts.push_back(8); opts.push_back(3); } }
	else return false;
	if (archive == A_MSGPACK) opts.push_back(12);   // an application-specific ext value (written by another program), a mismatch for every target
	const int o = opts[s.draw(sim::L_FAULT, static_cast<uint32_t>(opts.size()))];
	switch (o)
	{
	case 0: repl = DynNode(K::Str); repl.s = Padded(s, "x!"); name = "str"; break;
	case 1: repl = DynNode(K::Arr); repl.items.emplace_back(K::Str); repl.items[0].s = Padded(s, "e!"); repl.items.emplace_back(K::Str); repl.items[1].s = "f!"; name = "arr"; break;
	case 2: { repl = DynNode(K::Obj); Key k; k.s = "q0"; repl.keys.push_back(k); repl.items.emplace_back(K::Str); repl.items[0].s = Padded(s, "g!"); name = "obj"; break; }
	case 3: repl = DynNode(K::Null); name = "null"; break;
	case 4: repl = DynNode(K::F64); repl.f64 = 1.5; name = "float"; break;
	case 5:
		name = "out_of_range";
		switch (target)
		{
		case K::Bool: { static const int32_t v[] = { 2, 5, 127, 128, 200, -1, 70000 }; repl = DynNode(K::I32); repl.i32 = s.pick(sim::L_FAULT, v); break; }
		case K::I8: repl = DynNode(K::I32); repl.i32 = s.chance(sim::L_FAULT, 1, 2) ? 128 : -129; break;
		case K::U8: repl = DynNode(K::I32); repl.i32 = s.chance(sim::L_FAULT, 1, 2) ? 256 : -1; break;
		case K::I16: repl = DynNode(K::I32); repl.i32 = s.chance(sim::L_FAULT, 1, 2) ? 32768 : -32769; break;
		case K::U16: repl = DynNode(K::I32); repl.i32 = s.chance(sim::L_FAULT, 1, 2) ? 65536 : -1; break;
		case K::I32: repl = DynNode(K::I64); repl.i64 = s.chance(sim::L_FAULT, 1, 2) ? 2147483648ll : -2147483649ll; break;
		case K::U32: repl = DynNode(K::I64); repl.i64 = s.chance(sim::L_FAULT, 1, 2) ? 4294967296ll : -1; break;
		case K::I64: repl = DynNode(K::U64); repl.u64 = 9223372036854775808ull; break;
		case K::U64: repl = DynNode(K::I64); repl.i64 = -1; break;
		default: return false;
		}
		break;
	case 6: { repl = DynNode(K::Bin); const std::string b = Padded(s, "\x01\x02\x03"); repl.bin.assign(b.begin(), b.end()); name = "bin"; break; }
	case 7: repl = DynNode(K::I32); repl.i32 = 7; name = "int"; break;
	case 12: repl = DynNode(K::Str); repl.s = kForeignExtPlaceholder; name = "foreign_ext"; break;
	case 10: { static const int64_t wide[] = { 300, -200, 70000, -40000, 5000000000ll, -5000000000ll }; repl = DynNode(K::I64); repl.i64 = s.pick(sim::L_FAULT, wide); name = "wide_int"; break; }
	case 9:
		// before 1970 (MsgPack: timestamp 96 = ext 8) or after it (fixext)
		repl = DynNode(K::Ts);
		repl.tp = std::chrono::system_clock::time_point(std::chrono::seconds(s.chance(sim::L_FAULT, 2, 3) ? -473385600ll - static_cast<int64_t>(s.draw(sim::L_FAULT, 1000)) : 1700000000ll));
		name = "timestamp";
		break;
	default:
		// the library documents "binary first, then array" for byte containers: an array of small integers may load or be skipped
		repl = DynNode(K::Arr);
		for (int i = 0; i < 3; ++i) { repl.items.emplace_back(K::U8); repl.items[i].u8 = static_cast<uint8_t>(10 + i); }
		name = "array_of_bytes";
		mayLoad = true;
		break;
	}
	return true;
}

struct Cmp
{
	std::string err;
	std::string errKind;
};

static void Compare(const DynNode& b, const DynNode& f, const DynNode& marker, PathRef& cur, const std::vector<PathRef>& offences, const std::vector<bool>& mayLoad, Cmp& out)
{
	if (!out.err.empty()) return;
	for (size_t k = 0; k < offences.size(); ++k)
	{
		if (offences[k].idx == cur.idx)
		{
			if (f.loaded && !mayLoad[k]) { out.err = "offending value at " + PathStr(cur) + " was reported as loaded"; out.errKind = "offender_loaded"; return; }
			if (!f.loaded && Repr(f) != Repr(marker)) { out.err = "target of the skipped value at " + PathStr(cur) + " did not keep its previous value: " + DiffAt(Repr(marker), Repr(f)); out.errKind = "offender_changed"; }
			return;
		}
	}
	if (b.loaded != f.loaded) { out.err = "neighbour at " + PathStr(cur) + " reported " + (f.loaded ? "loaded" : "not loaded") + ", without the offence it is " + (b.loaded ? "loaded" : "not loaded"); out.errKind = "neighbour_flag"; return; }
	if (b.kind == K::Arr && (b.loadedCount != f.loadedCount || b.extra != f.extra))
	{
		out.err = "array at " + PathStr(cur) + " read " + std::to_string(f.loadedCount) + (f.extra ? "+more" : "") + " elements, without the offence " + std::to_string(b.loadedCount) + (b.extra ? "+more" : "");
		out.errKind = "neighbour_count";
		return;
	}
	if (b.kind != K::Arr && b.kind != K::Obj)
	{
		if (Repr(b) != Repr(f)) { out.err = "neighbour at " + PathStr(cur) + " loaded differently: " + DiffAt(Repr(b), Repr(f)); out.errKind = "neighbour_value"; }
		return;
	}
	for (size_t i = 0; i < b.items.size(); ++i)
	{
		cur.idx.push_back(i);
		Compare(b.items[i], f.items[i], marker.items[i], cur, offences, mayLoad, out);
		cur.idx.pop_back();
	}
}

// Container leg: an array of numbers with offending elements loaded into a std::vector (the library's own container loader with
// its estimated-size pre-sizing), arrays longer than the estimate included; reference = position-wise expectation.
// Fixed-shape leg: the library's own loaders for std::tuple, std::array and a vector of tuples. One element of the document is a
// definite offence (a text where a number or bool is expected, a number where a text is expected); with the Skip policy every
// other element, and the member that follows, must load as without the offence, and the offended element keeps its value.
static Outcome ShapesLeg(RunCtx& ctx, int archive)
{
	Source& s = ctx.src;
	ArchiveOps& ops = GetOps(archive);
	const std::string an = ArchiveName(archive);
	SerializationOptions o = GenLoadOptions(s, sim::L_CFG, archive);
	o.mismatchedTypesPolicy = BitSerializer::MismatchedTypesPolicy::Skip;
	o.overflowNumberPolicy = BitSerializer::OverflowNumberPolicy::Skip;
	Outcome out;
	out.cfgKey = an + "|shapes";
	ctx.count("leg.shapes");
	// the document, as a dynamic tree
	auto I32 = [&](int32_t v) { DynNode n(K::I32); n.i32 = v; return n; };
	auto I64 = [&](int64_t v) { DynNode n(K::I64); n.i64 = v; return n; };
	auto Str = [&](const std::string& v) { DynNode n(K::Str); n.s = v; return n; };
	auto Bool = [&](bool v) { DynNode n(K::Bool); n.b = v; return n; };
	auto key = [](const char* k) { Key x; x.s = k; return x; };
	DynNode root(K::Obj);
	DynNode tup(K::Arr), arr(K::Arr), vt(K::Arr);
	const int32_t t0 = static_cast<int32_t>(GenSigned(s, sim::L_DOC, 32));
	const std::string t1 = "t" + ToUtf8(GenText(s, sim::L_DOC, ProfileFor(archive), 20));
	const bool t2 = s.chance(sim::L_DOC, 1, 2);
	const int64_t t3 = GenSigned(s, sim::L_DOC, 64);
	tup.items = { I32(t0), Str(t1), Bool(t2), I64(t3) };
	int32_t a[4];
	for (int i = 0; i < 4; ++i) { a[i] = static_cast<int32_t>(GenSigned(s, sim::L_DOC, 32)); arr.items.push_back(I32(a[i])); }
	const uint32_t nvt = 1 + s.draw(sim::L_DOC, 4);
	std::vector<std::pair<int32_t, std::string>> v;
	for (uint32_t i = 0; i < nvt; ++i)
	{
		v.emplace_back(static_cast<int32_t>(GenSigned(s, sim::L_DOC, 32)), "v" + std::to_string(i));
		DynNode item(K::Arr);
		item.items = { I32(v.back().first), Str(v.back().second) };
		vt.items.push_back(item);
	}
	// a bitset and a vector<bool>: all elements true, so that an element that is not loaded cannot pass for its neighbour's value
	DynNode bits(K::Arr), vb(K::Arr);
	for (int i = 0; i < 6; ++i) bits.items.push_back(Bool(true));
	const uint32_t nvb = 2 + s.draw(sim::L_DOC, 6);
	for (uint32_t i = 0; i < nvb; ++i) vb.items.push_back(Bool(true));
	root.keys = { key("tup"), key("arr"), key("vt"), key("bits"), key("vb"), key("tail") };
	const int32_t tail = 1 + static_cast<int32_t>(s.draw(sim::L_DOC, 1000));
	root.items = { tup, arr, vt, bits, vb, I32(tail) };
	// the offence
	const uint32_t where = s.draw(sim::L_FAULT, 5);     // 0 tuple, 1 array, 2 an item of the vector of tuples, 3 bitset, 4 vector<bool>
	uint32_t idx = 0;
	std::string what;
	if (where == 0) { idx = s.draw(sim::L_FAULT, 4); root.items[0].items[idx] = idx == 1 ? (archive == A_XML ? DynNode(K::Null) : I32(7)) : Str("x!"); what = "tup[" + std::to_string(idx) + "]"; }
	else if (where == 1) { idx = s.draw(sim::L_FAULT, 4); root.items[1].items[idx] = Str("x!"); what = "arr[" + std::to_string(idx) + "]"; }
	else if (where == 2) { idx = s.draw(sim::L_FAULT, nvt); root.items[2].items[idx].items[0] = Str("x!"); what = "vt[" + std::to_string(idx) + "][0]"; }
	else if (where == 3) { idx = s.draw(sim::L_FAULT, 6); root.items[3].items[idx] = Str("x!"); what = "bits[" + std::to_string(idx) + "]"; }
	else { idx = s.draw(sim::L_FAULT, nvb); root.items[4].items[idx] = Str("x!"); what = "vb[" + std::to_string(idx) + "]"; }
	const bool xmlStringOffence = archive == A_XML && where == 0 && idx == 1;   // XML: null in place of a text is "not loaded" as well
	(void)xmlStringOffence;
	std::string bytes;
	CallResult sv = SaveDynWith(ops, root, bytes, o, OutCfg{});
	if (!sv.ok) return out;
	if (archive != A_MSGPACK && bytes.size() >= 3 && bytes.compare(0, 3, "\xEF\xBB\xBF") == 0) return out;
	InCfg c;
	if (s.chance(sim::L_IO, 1, 2)) { c = DrawStreamCfg(s, sim::L_IO); c.seekable = true; }
	ctx.note("shapes leg: archive=" + an + " offence at " + what + " via " + c.str() + " options: " + OptStr(o));
	Shapes sh;
	sh.tup = std::make_tuple(0x55555555, std::string("\x01marker"), !t2, int64_t(0x5555555555555555ll));
	sh.arr = { 0x55555555, 0x55555555, 0x55555555, 0x55555555 };
	sh.vt.assign(1 + s.draw(sim::L_PROG, 4), std::make_tuple(0x55555555, std::string("\x01marker")));
	sh.tail = 0x55555555;
	sh.bits.reset();                   // every bit false before the load
	sh.vb.assign(1 + s.draw(sim::L_PROG, 4), true);
	ApplyKnobs(c);
	CallResult r;
	sim::steps_begin(3000ull * (bytes.size() + 4096));
	if (!c.stream) r = Guarded([&] { ops.LoadShapes(sh, o, IoIn{ &bytes, nullptr }); });
	else
	{
		sim::SimIStreamBuf sb(bytes, true, c.delivery, {});
		std::istream is(&sb);
		r = Guarded([&] { ops.LoadShapes(sh, o, IoIn{ nullptr, &is }); });
	}
	sim::steps_end();
	ResetKnobs();
	const std::string tags = "archive=" + an + " leg=shapes entry=" + (c.stream ? "stream:file" : "mem") + " offence=" + (where == 0 ? "tuple" : where == 1 ? "array" : where == 2 ? "vector_of_tuples" : where == 3 ? "bitset" : "vector_bool");
	if (!r.isStd) return Violation("WRONG_EXCEPTION", tags, "non-std exception");
	if (!r.ok) return Violation("WRONG_EXCEPTION", tags + " what=threw exc=" + r.cat, "with the Skip policies the load must not throw for " + what + ": " + r.cat + " (" + r.what + ")");
	auto fail = [&](const std::string& w, const std::string& d) { return Violation("WRONG_VALUE", tags + " what=" + w, "offence at " + what + ": " + d); };
	if (!sh.tailLoaded || sh.tail != tail) return fail("member_after", "the member after the containers was not loaded correctly (" + std::to_string(sh.tail) + ", expected " + std::to_string(tail) + ")");
	const bool off0 = where == 0;
	if (std::get<0>(sh.tup) != (off0 && idx == 0 ? 0x55555555 : t0)) return fail(off0 && idx == 0 ? "offended_changed" : "neighbour_value", "tup[0] = " + std::to_string(std::get<0>(sh.tup)));
	if (std::get<1>(sh.tup) != (off0 && idx == 1 ? std::string("\x01marker") : t1)) return fail(off0 && idx == 1 ? "offended_changed" : "neighbour_value", "tup[1] = " + sim::hex(std::get<1>(sh.tup), 40));
	if (std::get<2>(sh.tup) != (off0 && idx == 2 ? !t2 : t2)) return fail(off0 && idx == 2 ? "offended_changed" : "neighbour_value", "tup[2]");
	if (std::get<3>(sh.tup) != (off0 && idx == 3 ? int64_t(0x5555555555555555ll) : t3)) return fail(off0 && idx == 3 ? "offended_changed" : "neighbour_value", "tup[3] = " + std::to_string(std::get<3>(sh.tup)));
	for (uint32_t i = 0; i < 4; ++i)
	{
		const bool off = where == 1 && idx == i;
		if (sh.arr[i] != (off ? 0x55555555 : a[i])) return fail(off ? "offended_changed" : "neighbour_value", "arr[" + std::to_string(i) + "] = " + std::to_string(sh.arr[i]));
	}
	if (sh.vt.size() != nvt) return fail("neighbour_count", "vt has " + std::to_string(sh.vt.size()) + " items, the document " + std::to_string(nvt));
	for (uint32_t i = 0; i < nvt; ++i)
	{
		const bool off = where == 2 && idx == i;
		// items of a sequence container are new values: the offended component is a default, not the marker
		if (std::get<0>(sh.vt[i]) != (off ? 0 : v[i].first)) return fail(off ? "offended_changed" : "neighbour_value", "vt[" + std::to_string(i) + "][0] = " + std::to_string(std::get<0>(sh.vt[i])));
		if (std::get<1>(sh.vt[i]) != v[i].second) return fail("neighbour_value", "vt[" + std::to_string(i) + "][1] = " + sim::hex(std::get<1>(sh.vt[i]), 40));
	}
	for (uint32_t i = 0; i < 6; ++i)
	{
		const bool off = where == 3 && idx == i;
		// a bit is a field: the offended one keeps its value (false), it does not take its neighbour's
		if (sh.bits.test(i) != !off) return fail(off ? "offended_changed" : "neighbour_value", "bits[" + std::to_string(i) + "] = " + (sh.bits.test(i) ? "1" : "0"));
	}
	if (sh.vb.size() != nvb) return fail("neighbour_count", "vb has " + std::to_string(sh.vb.size()) + " items, the document " + std::to_string(nvb));
	for (uint32_t i = 0; i < nvb; ++i)
	{
		const bool off = where == 4 && idx == i;
		// an item of a sequence container is a new value: the offended one is false, not its neighbour's value
		if (sh.vb[i] != !off) return fail(off ? "offended_changed" : "neighbour_value", "vb[" + std::to_string(i) + "] = " + (sh.vb[i] ? "1" : "0"));
	}
	out.nontrivial = true;
	sim::probe("fixed-shape-offence-skipped");
	return out;
}

static Outcome ContainerLeg(RunCtx& ctx, int archive)
{
	Source& s = ctx.src;
	ArchiveOps& ops = GetOps(archive);
	const std::string an = ArchiveName(archive);
	SerializationOptions o;
	o.mismatchedTypesPolicy = BitSerializer::MismatchedTypesPolicy::Skip;
	o.overflowNumberPolicy = BitSerializer::OverflowNumberPolicy::Skip;
	o.streamOptions.writeBom = false;
	static const uint32_t sizes[] = { 1, 2, 5, 17, 40, 1023, 1024, 1025, 1030, 1100, 2100 };
	const uint32_t n = s.pick(sim::L_DOC, sizes);
	DynNode doc(K::Arr);
	std::vector<int32_t> expected(n);
	for (uint32_t i = 0; i < n; ++i) { DynNode e(K::I32); e.i32 = static_cast<int32_t>(i * 7 + 1); expected[i] = e.i32; doc.items.push_back(e); }
	const uint32_t nOff = 1 + s.draw(sim::L_FAULT, 3);
	std::string what;
	for (uint32_t k = 0; k < nOff; ++k)
	{
		// offences near the end are the interesting ones (behind the estimated size)
		const uint32_t idx = s.chance(sim::L_FAULT, 1, 2) ? n - 1 - s.draw(sim::L_FAULT, std::min<uint32_t>(n, 80)) : s.draw(sim::L_FAULT, n);
		const uint32_t kind = s.draw(sim::L_FAULT, 4);
		DynNode repl;
		if (kind == 0) { repl = DynNode(K::Str); repl.s = "x!"; }
		else if (kind == 1) repl = DynNode(K::Null);
		else if (kind == 2) { repl = DynNode(K::F64); repl.f64 = 1.5; }
		else { repl = DynNode(K::I64); repl.i64 = 4294967296ll + idx; }
		doc.items[idx] = repl;
		expected[idx] = 0;   // a fresh element that is not loaded stays default
		what += "[" + std::to_string(idx) + "]<-" + KName(repl.kind) + " ";
	}
	Outcome out;
	out.cfgKey = an + "|container|" + std::to_string(n);
	ctx.note("container leg: archive=" + an + " array of " + std::to_string(n) + " ints, offences: " + what);
	ctx.count("leg.container");
	std::string bytes;
	CallResult sv = SaveDynWith(ops, doc, bytes, o, OutCfg{});
	if (!sv.ok) return out;
	const uint32_t prior = s.pick(sim::L_PROG, sizes) % 1200;
	const uint32_t nEntries = 1 + s.draw(sim::L_IO, 2);
	for (uint32_t j = 0; j < nEntries; ++j)
	{
		InCfg c;
		if (j > 0) c = DrawStreamCfg(s, sim::L_IO);
		std::vector<int32_t> target(j == 0 ? 0 : prior, 0x55555555);
		ApplyKnobs(c);
		CallResult r;
		const uint64_t seekFailBefore = sim::ev_kind_count(sim::EV_R_SEEK_FAIL);
		sim::steps_begin(3000ull * (bytes.size() + 4096));
		if (!c.stream) r = Guarded([&] { ops.LoadIntVector(target, o, IoIn{ &bytes, nullptr }); });
		else
		{
			sim::SimIStreamBuf sb(bytes, c.seekable, c.delivery);
			std::istream is(&sb);
			r = Guarded([&] { ops.LoadIntVector(target, o, IoIn{ nullptr, &is }); });
		}
		sim::steps_end();
		ResetKnobs();
		const std::string tags = "archive=" + an + " leg=container entry=" + (c.stream ? (c.seekable ? "stream:file" : "stream:pipe") : "mem");
		ctx.note("  load via " + c.str() + " into a vector of " + std::to_string(target.size()) + " -> " + r.cat + " " + r.what);
		if (!r.isStd) return Violation("WRONG_EXCEPTION", tags, "non-std exception");
		// a non-seekable source cannot serve a skip that needs a seek beyond its window (stated relaxation)
		if (!r.ok && c.stream && !c.seekable && sim::ev_kind_count(sim::EV_R_SEEK_FAIL) != seekFailBefore) { ctx.count("pipe_seek_relaxed"); continue; }
		if (!r.ok) return Violation("WRONG_EXCEPTION", tags + " what=threw exc=" + r.cat, "with both Skip policies the load threw: " + r.what + " [" + what + "]");
		out.nontrivial = true;
		if (target.size() != expected.size())
			return Violation("WRONG_VALUE", tags + " what=neighbour_count", "vector has " + std::to_string(target.size()) + " elements, the array has " + std::to_string(expected.size()) + " [" + what + "]");
		for (size_t i = 0; i < expected.size(); ++i)
		{
			if (target[i] != expected[i])
				return Violation("WRONG_VALUE", tags + " what=neighbour_value", "element [" + std::to_string(i) + "] is " + std::to_string(target[i]) + ", expected " + std::to_string(expected[i]) + " [" + what + "]");
		}
	}
	return out;
}

Outcome RunC05(RunCtx& ctx)
{
	Source& s = ctx.src;
	const int archive = static_cast<int>(s.draw(sim::L_CFG, A_COUNT));
	if (archive != A_CSV && s.chance(sim::L_CFG, 1, 8)) return ContainerLeg(ctx, archive);
	if (archive != A_CSV && s.chance(sim::L_CFG, 1, 12)) return ShapesLeg(ctx, archive);
	ArchiveOps& ops = GetOps(archive);
	const std::string an = ArchiveName(archive);
	GenCfg g;
	g.archive = archive;
	g.allowIntKeys = archive == A_MSGPACK;
	g.maxNodes = 30;
	g.forceContainerRoot = true;
	if (archive == A_CSV) g.allowEmptyContainers = false;   // KF-CSV-EMPTY-TABLE (owned by C01)
	if (archive == A_JSON) g.simpleFloats = true;                               // KF-JSON-DOUBLE-PRECISION (owned by C01)
	if (s.chance(sim::L_CFG, 1, 2)) g.kindMask = s.draw(sim::L_CFG, 0xFFFFFFFFu) | (1u << static_cast<int>(K::I32));
	SerializationOptions o = GenLoadOptions(s, sim::L_CFG, archive);
	o.mismatchedTypesPolicy = BitSerializer::MismatchedTypesPolicy::Skip;
	o.overflowNumberPolicy = BitSerializer::OverflowNumberPolicy::Skip;

	DynNode doc = GenDocument(s, sim::L_DOC, g);
	Outcome out;
	out.cfgKey = an;
	std::vector<PathRef> all;
	{ std::vector<size_t> cur; CollectPaths(doc, cur, all); }
	if (all.empty()) return out;

	// ---- typed corruption: 1..3 offences, none nested in another ----
	DynNode mut = doc;
	std::vector<PathRef> offences;
	std::vector<bool> mayLoad;
	std::string what;
	const uint32_t want = 1 + s.draw(sim::L_FAULT, 3);
	for (uint32_t k = 0; k < want * 4 && offences.size() < want; ++k)
	{
		const PathRef& p = all[s.draw(sim::L_FAULT, static_cast<uint32_t>(all.size()))];
		bool clash = false;
		for (auto& q : offences) if (IsPrefix(q, p) || IsPrefix(p, q)) clash = true;
		if (clash) continue;
		if (archive == A_CSV && p.idx.size() != 2) continue;    // CSV: only cells
		DynNode& target = At(mut, p);
		DynNode repl;
		std::string name;
		bool ml = false;
		if (!MakeOffence(s, archive, At(doc, p).kind, repl, name, ml)) continue;
		target = repl;
		offences.push_back(p);
		mayLoad.push_back(ml);
		what += PathStr(p) + ":" + KName(At(doc, p).kind) + "<-" + name + " ";
		ctx.count("fault.typed." + name);
	}
	if (offences.empty()) return out;
	ctx.note("archive=" + an + " options: " + OptStr(o));
	if (ctx.describe) ctx.note("document: " + Pretty(doc));
	ctx.note("typed corruption: " + what);

	std::string bytesB, bytesF;
	CallResult sb = SaveDynWith(ops, doc, bytesB, o, OutCfg{});
	CallResult sf = SaveDynWith(ops, mut, bytesF, o, OutCfg{});
	if (!sb.isStd || !sf.isStd) return Violation("WRONG_EXCEPTION", "archive=" + an + " dir=save", "non-std exception");
	if (!sb.ok || !sf.ok) { ctx.count("save_failed"); return out; }
	if (archive != A_MSGPACK && bytesF.size() >= 3 && bytesF.compare(0, 3, "\xEF\xBB\xBF") == 0) return out;
	if (archive == A_MSGPACK) { const uint32_t n = PatchForeignExt(bytesF); if (n) { ctx.count("offence.foreign_ext_patched", n); sim::probe("foreign-ext-offence"); } }
	if (ctx.describe) ctx.note("faulted bytes(" + std::to_string(bytesF.size()) + "): " + sim::hex(bytesF, 300));

	DynNode marker = Skeleton(doc);
	MarkAll(marker);
	sim::stream_call_budget(64 * (bytesF.size() + bytesB.size() + 4096) * 8);

	const uint32_t nStream = 1 + s.draw(sim::L_IO, 2);
	for (uint32_t j = 0; j <= nStream; ++j)
	{
		InCfg c;
		if (j > 0) c = DrawStreamCfg(s, sim::L_IO);
		ctx.note("load #" + std::to_string(j) + " via " + c.str());
		const std::string tags = "archive=" + an + " entry=" + (c.stream ? (c.seekable ? "stream:file" : "stream:pipe") : "mem");
		// baseline: the same load of the unfaulted document
		DynNode base = marker;
		LoadInfo infoB;
		sim::steps_begin(3000ull * (bytesB.size() + 4096));
		const CallResult rb = LoadDynWith(ops, base, bytesB, o, c, {}, false, &infoB);
		sim::steps_end();
		if (!rb.isStd) return Violation("WRONG_EXCEPTION", tags, "non-std exception");
		if (!rb.ok)
		{
			if (c.stream && !c.seekable && infoB.seekFailed) continue;
			return Violation("WRONG_EXCEPTION", tags + " what=baseline exc=" + rb.cat, "the unfaulted document failed to load: " + rb.what);
		}
		// Required() on the object members that are offended (only where the unfaulted value reports 'loaded')
		DynNode target = marker;
		size_t requiredCount = 0;
		for (auto& p : offences)
		{
			DynNode* parent = &target;
			for (size_t d = 0; d + 1 < p.idx.size(); ++d) parent = &parent->items[p.idx[d]];
			if (parent->kind == K::Obj && At(base, p).loaded && !mayLoad[&p - &offences[0]]) { At(target, p).required = true; ++requiredCount; }
		}
		LoadInfo info;
		sim::steps_begin(3000ull * (bytesF.size() + 4096));
		CallResult rf;
		std::vector<std::pair<std::string, std::vector<std::string>>> verrors;
		{
			ApplyKnobs(c);
			// (same as LoadDynWith, but the validation map is needed)
			auto call = [&](IoIn in)
			{
				try { ops.LoadDyn(target, o, in); rf.ok = true; rf.cat = "ok"; }
				catch (const BitSerializer::ValidationException& e)
				{
					rf.cat = "ser:Failed_validation"; rf.what = e.what();
					for (auto& kv : e.GetValidationErrors()) verrors.emplace_back(kv.first, kv.second);
				}
				catch (const BitSerializer::SerializationException& e) { rf.cat = "ser:" + BitSerializer::Convert::ToString(e.GetErrorCode()); for (auto& ch : rf.cat) if (ch == ' ') ch = '_'; rf.what = e.what(); }
				catch (const std::exception& e) { rf.cat = "std:" + Demangle(typeid(e).name()); rf.what = e.what(); }
				catch (...) { rf.cat = "nonstd"; rf.isStd = false; }
			};
			if (!c.stream) call(IoIn{ &bytesF, nullptr });
			else
			{
				const uint64_t sfBefore = sim::ev_kind_count(sim::EV_R_SEEK_FAIL);
				sim::SimIStreamBuf sbuf(bytesF, c.seekable, c.delivery, {});
				sbuf.SetSeekBeyondFails(c.seekBeyondFails);
				std::istream is(&sbuf);
				call(IoIn{ nullptr, &is });
				info.seekFailed = sim::ev_kind_count(sim::EV_R_SEEK_FAIL) != sfBefore;
			}
			ResetKnobs();
		}
		sim::steps_end();
		ctx.note("  -> " + rf.cat + " " + rf.what);
		if (!rf.isStd) return Violation("WRONG_EXCEPTION", tags, "non-std exception");
		if (c.stream && !c.seekable && info.seekFailed && !rf.ok && rf.cat != "ser:Failed_validation") { ctx.count("pipe_seek_relaxed"); continue; }
		if (requiredCount == 0 && !rf.ok)
		{
			return Violation("WRONG_EXCEPTION", tags + " what=threw exc=" + rf.cat, "with both Skip policies the load of the faulted document threw: " + rf.what + " [" + what + "]");
		}
		if (requiredCount != 0)
		{
			if (rf.cat != "ser:Failed_validation")
				return Violation("WRONG_VALUE", tags + " what=required_silent got=" + rf.cat, "Required() on " + std::to_string(requiredCount) + " skipped field(s) did not produce a ValidationException: " + rf.cat + " " + rf.what + " [" + what + "]");
			size_t msgs = 0;
			for (auto& e : verrors) msgs += e.second.size();
			// errors are grouped by path and XML paths carry no array positions: the number of messages is what must match
			if (msgs != requiredCount || verrors.empty() || verrors.size() > requiredCount)
				return Violation("WRONG_VALUE", tags + " what=required_count", "expected exactly " + std::to_string(requiredCount) + " validation error(s), got " + std::to_string(verrors.size()) + " fields/" + std::to_string(msgs) + " messages [" + what + "]");
		}
		out.nontrivial = true;
		sim::probe("offence-skipped");
		if (c.stream) { ctx.count(c.seekable ? "kind.file" : "kind.pipe"); ctx.count("binChunk." + std::to_string(c.binChunk)); }
		Cmp cmp;
		PathRef cur;
		Compare(base, target, marker, cur, offences, mayLoad, cmp);
		if (!cmp.err.empty()) return Violation("WRONG_VALUE", tags + " what=" + cmp.errKind, cmp.err + " [" + what + "]");
	}
	return out;
}

} // namespace hz
