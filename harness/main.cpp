// simcheck worker: runs seeded simulated executions of one property's scenario, or executes/describes one plan.
//   simcheck run <PROP> <seed> <from> <to> <statefile> <hashfile>
//   simcheck exec <PROP> <planfile> [describe]
//   simcheck describe <PROP> <seed> <index>
#include <cinttypes>
#include <fcntl.h>
#include <unistd.h>
#include <fstream>
#include <set>
#include "common.h"

namespace sim { void set_stats_dump(void (*fn)()); void set_lane_positions(const size_t* pos); }

namespace hz {
Outcome RunC01(RunCtx&);
Outcome RunC02(RunCtx&);
Outcome RunC03(RunCtx&);
Outcome RunC05(RunCtx&);
Outcome RunC10(RunCtx&);
Outcome RunC13(RunCtx&);
Outcome RunC18(RunCtx&);
Outcome RunC19(RunCtx&);
Outcome RunC20(RunCtx&);
void WarmUp();
extern bool g_coldRun;

static const ScenarioDef kScenarios[] = {
	{ "C01", RunC01 }, { "C02", RunC02 }, { "C03", RunC03 }, { "C05", RunC05 }, { "C10", RunC10 },
	{ "C13", RunC13 }, { "C18", RunC18 }, { "C19", RunC19 }, { "C20", RunC20 },
};

static ScenarioFn FindScenario(const char* p)
{
	for (auto& s : kScenarios) if (strcmp(s.property, p) == 0) return s.fn;
	return nullptr;
}

// ---- stats ------------------------------------------------------------------------------------
static std::map<std::string, uint64_t> g_counters;
static uint64_t g_evaluations = 0, g_violations = 0, g_nontrivial = 0, g_seamEvents = 0, g_streamCalls = 0;
static uint64_t g_firstIdx = 0, g_lastIdx = 0;
static bool g_statsDumped = false;

static std::string JsonEscape(const std::string& s)
{
	std::string r;
	for (unsigned char c : s)
	{
		if (c == '"' || c == '\\') { r.push_back('\\'); r.push_back(static_cast<char>(c)); }
		else if (c < 0x20 || c >= 0x7F) { char b[8]; snprintf(b, sizeof b, "\\u%04x", c); r += b; }
		else r.push_back(static_cast<char>(c));
	}
	return r;
}

static const Source* g_currentSource = nullptr;

static void DumpStats()
{
	if (g_statsDumped) return;
	g_statsDumped = true;
	std::string j = "{";
	j += "\"evaluations\":" + std::to_string(g_evaluations);
	j += ",\"violations\":" + std::to_string(g_violations);
	j += ",\"nontrivial\":" + std::to_string(g_nontrivial);
	j += ",\"seam_events\":" + std::to_string(g_seamEvents);
	j += ",\"first\":" + std::to_string(g_firstIdx) + ",\"last\":" + std::to_string(g_lastIdx);
	j += ",\"cov_reached\":" + std::to_string(sim::cov_reached()) + ",\"cov_total\":" + std::to_string(sim::cov_total());
	j += ",\"counters\":{";
	bool first = true;
	for (auto& c : g_counters) { if (!first) j += ","; first = false; j += "\"" + JsonEscape(c.first) + "\":" + std::to_string(c.second); }
	j += "},\"probes\":{";
	first = true;
	for (auto& p : sim::probes()) { if (!first) j += ","; first = false; j += "\"" + JsonEscape(p.first) + "\":" + std::to_string(p.second); }
	j += "}}";
	printf("STATS %s\n", j.c_str());
	fflush(stdout);
}

static uint64_t RunSeed(const char* prop, uint64_t seed, uint64_t idx)
{
	return sim::mix64(sim::mix64(seed, sim::fnv1a(prop, strlen(prop))), idx);
}

static std::string OneLine(std::string s)
{
	for (auto& c : s) if (c == '\n' || c == '\r') c = ' ';
	return s;
}

static void PrintLanes(const Source& src)
{
	for (int l = 0; l < sim::L_COUNT; ++l)
	{
		printf("LANE %s", sim::LaneNames[l]);
		for (auto v : src.out[l]) printf(" %u", v);
		printf("\n");
	}
}

static int CmdRun(int argc, char** argv)
{
	if (argc < 8) { fprintf(stderr, "usage: run PROP seed from to statefile hashfile\n"); return 2; }
	const char* prop = argv[2];
	const uint64_t seed = strtoull(argv[3], nullptr, 10);
	const uint64_t from = strtoull(argv[4], nullptr, 10), to = strtoull(argv[5], nullptr, 10);
	ScenarioFn fn = FindScenario(prop);
	if (!fn) { fprintf(stderr, "unknown property %s\n", prop); return 2; }
	const int stateFd = open(argv[6], O_WRONLY | O_CREAT | O_TRUNC, 0644);
	FILE* hashFile = fopen(argv[7], "a");
	sim::set_stats_dump(DumpStats);
	const bool printHashes = getenv("SIM_PRINT_HASHES") != nullptr;
	WarmUp();
	g_firstIdx = from;
	for (uint64_t idx = from; idx < to; ++idx)
	{
		if (stateFd >= 0) { char b[32]; int n = snprintf(b, sizeof b, "%020" PRIu64 "\n", idx); if (pwrite(stateFd, b, n, 0) < 0) {} }
		char label[96];
		snprintf(label, sizeof label, "%s/%" PRIu64 "/%" PRIu64, prop, seed, idx);
		sim::set_run_label(label);
		RunCtx ctx;
		ctx.src.Seed(RunSeed(prop, seed, idx));
		g_currentSource = &ctx.src;
		sim::set_lane_positions(ctx.src.pos);   // a dying run reports how much of every lane it had consumed
		sim::ev_reset(false);
		Outcome o = fn(ctx);
		g_currentSource = nullptr;
		sim::set_lane_positions(nullptr);
		sim::steps_end();
		ResetKnobs();
		++g_evaluations;
		g_lastIdx = idx;
		g_seamEvents += sim::ev_count();
		for (auto& c : ctx.counters) g_counters[c.first] += c.second;
		const uint64_t h = sim::ev_hash();
		if (printHashes) printf("H %" PRIu64 " %016" PRIx64 " %s %d\n", idx, h, o.violation ? o.cls.c_str() : "ok", o.nontrivial ? 1 : 0);
		if (o.nontrivial)
		{
			++g_nontrivial;
			if (hashFile) fprintf(hashFile, "%016" PRIx64 "\n", sim::fnv1a(o.cfgKey, h));
		}
		if (o.violation)
		{
			++g_violations;
			printf("V %" PRIu64 " %s | %s | %s | %016" PRIx64 "\n", idx, o.cls.c_str(), OneLine(o.tags).c_str(), OneLine(o.detail).substr(0, 600).c_str(), h);
			fflush(stdout);
		}
	}
	if (hashFile) fclose(hashFile);
	DumpStats();
	return 0;
}

static bool ReadPlan(const char* path, std::array<std::vector<uint32_t>, sim::L_COUNT>& lanes)
{
	std::ifstream f(path);
	if (!f) return false;
	std::string line;
	while (std::getline(f, line))
	{
		std::istringstream is(line);
		std::string tag, name;
		is >> tag >> name;
		if (tag != "LANE") continue;
		for (int l = 0; l < sim::L_COUNT; ++l)
		{
			if (name == sim::LaneNames[l]) { uint32_t v; while (is >> v) lanes[l].push_back(v); }
		}
	}
	return true;
}

static int Execute(const char* prop, RunCtx& ctx)
{
	ScenarioFn fn = FindScenario(prop);
	if (!fn) { fprintf(stderr, "unknown property %s\n", prop); return 2; }
	sim::set_run_label(prop);
	sim::set_stats_dump(DumpStats);
	g_statsDumped = true;   // exec mode prints no STATS line
	if (!g_coldRun) WarmUp();
	sim::ev_reset(ctx.describe);
	g_currentSource = &ctx.src;
	sim::set_lane_positions(ctx.src.pos);
	Outcome o = fn(ctx);
	sim::set_lane_positions(nullptr);
	g_currentSource = nullptr;
	sim::steps_end();
	printf("RESULT %s cls=%s hash=%016" PRIx64 " nontrivial=%d\n", o.violation ? "violation" : "ok", o.violation ? o.cls.c_str() : "-", sim::ev_hash(), o.nontrivial ? 1 : 0);
	printf("TAGS %s\n", OneLine(o.tags).c_str());
	printf("DETAIL %s\n", OneLine(o.detail).substr(0, 2000).c_str());
	PrintLanes(ctx.src);
	if (ctx.describe)
	{
		printf("NOTE events: %s\n", sim::ev_trace().c_str());
		for (auto& c : ctx.counters) printf("NOTE counter %s=%" PRIu64 "\n", c.first.c_str(), c.second);
	}
	fflush(stdout);
	return o.violation ? 1 : 0;
}

static int CmdExec(int argc, char** argv)
{
	if (argc < 4) { fprintf(stderr, "usage: exec PROP planfile [describe]\n"); return 2; }
	std::array<std::vector<uint32_t>, sim::L_COUNT> lanes;
	if (!ReadPlan(argv[3], lanes)) { fprintf(stderr, "cannot read plan %s\n", argv[3]); return 2; }
	RunCtx ctx;
	ctx.src.Replay(lanes);
	for (int i = 4; i < argc; ++i)
	{
		if (strcmp(argv[i], "describe") == 0) ctx.describe = true;
		if (strcmp(argv[i], "cold") == 0) g_coldRun = true;
	}
	return Execute(argv[2], ctx);
}

// one seeded run in a process in which nothing of the library has been used yet (no warm-up)
static int CmdCold(int argc, char** argv)
{
	if (argc < 5) { fprintf(stderr, "usage: cold PROP seed index\n"); return 2; }
	RunCtx ctx;
	ctx.src.Seed(RunSeed(argv[2], strtoull(argv[3], nullptr, 10), strtoull(argv[4], nullptr, 10)));
	g_coldRun = true;
	return Execute(argv[2], ctx);
}

static int CmdDescribe(int argc, char** argv)
{
	if (argc < 5) { fprintf(stderr, "usage: describe PROP seed index\n"); return 2; }
	RunCtx ctx;
	ctx.src.Seed(RunSeed(argv[2], strtoull(argv[3], nullptr, 10), strtoull(argv[4], nullptr, 10)));
	ctx.describe = true;
	return Execute(argv[2], ctx);
}

static int CmdLanes(int argc, char** argv)
{
	if (argc < 6) { fprintf(stderr, "usage: lanes PROP seed index count\n"); return 2; }
	const uint64_t rs = RunSeed(argv[2], strtoull(argv[3], nullptr, 10), strtoull(argv[4], nullptr, 10));
	const size_t count = strtoull(argv[5], nullptr, 10);
	for (int l = 0; l < sim::L_COUNT; ++l)
	{
		printf("LANE %s", sim::LaneNames[l]);
		for (auto v : Source::RawLane(rs, l, count)) printf(" %u", v);
		printf("\n");
	}
	return 0;
}

} // namespace hz

int main(int argc, char** argv)
{
	setvbuf(stdout, nullptr, _IOLBF, 0);
	sim::install_fatal_handlers("");
	if (argc < 2) { fprintf(stderr, "usage: simcheck run|exec|describe ...\n"); return 2; }
	if (strcmp(argv[1], "run") == 0) return hz::CmdRun(argc, argv);
	if (strcmp(argv[1], "exec") == 0) return hz::CmdExec(argc, argv);
	if (strcmp(argv[1], "describe") == 0) return hz::CmdDescribe(argc, argv);
	if (strcmp(argv[1], "lanes") == 0) return hz::CmdLanes(argc, argv);
	if (strcmp(argv[1], "cold") == 0) return hz::CmdCold(argc, argv);
	fprintf(stderr, "unknown command\n");
	return 2;
}
