// C10 — memory and stream loading are equivalent wherever buffer boundaries fall; stream save == memory save.
#include "scen_util.h"
#include "zoo_gen.h"

namespace hz {

static const uint64_t kBlocksPerByte = 3000;

// Size-class leg: values whose length sits exactly on a format threshold (MsgPack fix/8/16/32 headers) - memory save vs
// stream save byte for byte, memory load vs stream load.
static Outcome SizeClassLeg(RunCtx& ctx, int archive)
{
	Source& s = ctx.src;
	ArchiveOps& ops = GetOps(archive);
	const std::string an = ArchiveName(archive);
	SerializationOptions o;
	o.streamOptions.writeBom = false;
	static const uint32_t small[] = { 15, 16, 31, 32, 255, 256 };
	static const uint32_t big[] = { 65534, 65535, 65536 };
	const uint32_t len = s.chance(sim::L_DOC, 1, 3) ? s.pick(sim::L_DOC, big) : s.pick(sim::L_DOC, small);
	const uint32_t shape = s.draw(sim::L_DOC, 4);     // 0 string value, 1 byte container, 2 array, 3 object key
	DynNode root(K::Arr);
	if (shape == 0) { DynNode v(K::Str); v.s.assign(len, 's'); root.items.push_back(v); }
	else if (shape == 1) { DynNode v(K::Bin); v.bin.assign(std::min<uint32_t>(len, archive == A_MSGPACK ? len : 300), 7); root.items.push_back(v); }
	else if (shape == 2) { DynNode v(K::Arr); const uint32_t n = archive == A_MSGPACK ? len : std::min<uint32_t>(len, 300); for (uint32_t i = 0; i < n; ++i) v.items.emplace_back(K::Bool); root.items.push_back(v); }
	else { DynNode v(K::Obj); Key k; k.s.assign(std::min<uint32_t>(len, archive == A_XML ? 200 : len), 'k'); v.keys.push_back(k); v.items.emplace_back(K::I32); root.items.push_back(v); }
	DynNode tail(K::I32);
	tail.i32 = 12345;
	root.items.push_back(tail);
	if (archive == A_CSV) return Outcome();
	Outcome out;
	out.cfgKey = an + "|sizeclass|" + std::to_string(shape) + "|" + std::to_string(len);
	ctx.note("size-class leg: archive=" + an + " shape=" + std::to_string(shape) + " length=" + std::to_string(len));
	ctx.count("leg.sizeclass");
	std::string mem;
	CallResult sm = SaveDynWith(ops, root, mem, o, OutCfg{});
	if (!sm.ok) return out;
	static const uint32_t bufs[] = { 0, 7, 4096 };
	OutCfg oc;
	oc.stream = true;
	oc.bufSize = s.pick(sim::L_IO, bufs);
	std::string str;
	CallResult ss = SaveDynWith(ops, root, str, o, oc);
	if (!ss.ok || str != mem)
	{
		size_t i = 0;
		while (i < mem.size() && i < str.size() && mem[i] == str[i]) ++i;
		return Violation("DIVERGENCE", "archive=" + an + " dir=save what=bytes", "stream save (" + ss.cat + ", " + std::to_string(str.size()) + " bytes) differs from memory save (" + std::to_string(mem.size())
			+ " bytes) at offset " + std::to_string(i) + " for a value of length " + std::to_string(len) + ": memory=" + sim::hex(mem.substr(i, 8)) + " stream=" + sim::hex(str.substr(i, 8)));
	}
	DynNode skelM = Skeleton(root);
	sim::steps_begin(3000ull * (mem.size() + 4096));
	const CallResult rM = LoadDynWith(ops, skelM, mem, o, InCfg{});
	sim::steps_end();
	InCfg c = DrawStreamCfg(s, sim::L_IO);
	DynNode skelS = Skeleton(root);
	sim::steps_begin(3000ull * (mem.size() + 4096));
	sim::stream_call_budget(64 * (mem.size() + 4096) * 8);
	LoadInfo info;
	const CallResult rS = LoadDynWith(ops, skelS, mem, o, c, {}, false, &info);
	sim::steps_end();
	out.nontrivial = true;
	if (!c.seekable && info.seekFailed && !rS.ok) return out;
	if (rM.ok != rS.ok || (rM.ok && TraceRepr(skelM) != TraceRepr(skelS)) || (!rM.ok && rM.cat != rS.cat))
		return Violation("DIVERGENCE", "archive=" + an + " dir=load what=" + (rM.ok && rS.ok ? "value" : "outcome") + " entry=" + (c.seekable ? "stream:file" : "stream:pipe"), "size-class document (length " + std::to_string(len) + "): memory=" + rM.cat + " stream=" + rS.cat + " " + rS.what);
	if (rM.ok && Repr(skelM) != Repr(root)) return Violation("DIVERGENCE", "archive=" + an + " dir=load what=value entry=mem", "size-class document does not load back: " + DiffAt(Repr(root).substr(0, 400), Repr(skelM).substr(0, 400)));
	return out;
}

// Std-adapter leg: the same differential for a struct holding every std adapter (containers pre-sized from the estimated size,
// maps loaded through VisitKeys, which needs backward seeks on streams)
static Outcome ZooLeg(RunCtx& ctx, int archive)
{
	Source& s = ctx.src;
	ArchiveOps& ops = GetOps(archive);
	const std::string an = ArchiveName(archive);
	SerializationOptions o = GenLoadOptions(s, sim::L_CFG, archive);
	ZooGenCfg zg;
	zg.archive = archive;
	zg.maxLen = s.chance(sim::L_DOC, 1, 4) ? 60 : 6;
	zg.jumboMember = DrawJumbo(s, sim::L_CFG, 6);
	Zoo z;
	GenZoo(s, sim::L_DOC, z, zg);
	if (zg.jumboMember >= 0 && archive != A_CSV) ctx.count(std::string("jumbo.") + JumboName(zg.jumboMember));
	if (archive == A_CSV) EnsureCsvRow(z);
	Outcome out;
	out.cfgKey = an + "|zoo";
	std::string bytes;
	CallResult sv = SaveZooWith(ops, z, bytes, o, OutCfg{});
	if (!sv.ok) return out;
	if (archive != A_MSGPACK && bytes.size() >= 3 && bytes.compare(0, 3, "\xEF\xBB\xBF") == 0) return out;
	const std::string validBytes = bytes;
	bool corrupted = false;
	if (s.chance(sim::L_FAULT, 1, 3))
	{
		std::string what;
		const uint32_t n = 1 + s.draw(sim::L_FAULT, 3);
		for (uint32_t i = 0; i < n; ++i) what += CorruptOnce(s, sim::L_FAULT, bytes, archive == A_MSGPACK, ctx) + " ";
		if (archive != A_MSGPACK && (!IsValidUtf8NoNul(bytes) || (bytes.size() >= 3 && bytes.compare(0, 3, "\xEF\xBB\xBF") == 0))) bytes = validBytes;
		else { corrupted = true; ctx.note("corruption: " + what); }
	}
	ctx.note("zoo leg: archive=" + an + " bytes=" + std::to_string(bytes.size()) + (corrupted ? " corrupted" : ""));
	ctx.count("leg.zoo");
	const bool csv = archive == A_CSV;
	auto fresh = [&](Zoo& t) { t.skipIntKeyMaps = z.skipIntKeyMaps; t.csvRoot = z.csvRoot; };
	Zoo zm;
	fresh(zm);
	sim::steps_begin(3000ull * (bytes.size() + 4096));
	sim::stream_call_budget(64 * (bytes.size() + 4096) * 8);
	const CallResult rM = LoadZooWith(ops, zm, bytes, o, InCfg{});
	sim::steps_end();
	if (!rM.isStd) return Violation("WRONG_EXCEPTION", "archive=" + an + " model=zoo dir=load entry=mem", "non-std exception");
	const auto fm = rM.ok ? ZooFields(zm, csv) : std::map<std::string, std::string>();
	const uint32_t nCfg = 1 + s.draw(sim::L_IO, 2);
	for (uint32_t j = 0; j < nCfg; ++j)
	{
		const InCfg c = DrawStreamCfg(s, sim::L_IO);
		Zoo zs;
		fresh(zs);
		LoadInfo info;
		const uint64_t sfBefore = sim::ev_kind_count(sim::EV_R_SEEK_FAIL);
		sim::steps_begin(3000ull * (bytes.size() + 4096));
		const CallResult rS = LoadZooWith(ops, zs, bytes, o, c, {}, false, &info);
		sim::steps_end();
		const bool seekFailed = sim::ev_kind_count(sim::EV_R_SEEK_FAIL) != sfBefore;
		out.nontrivial = true;
		const std::string tags = "archive=" + an + " model=zoo dir=load entry=" + (c.seekable ? "stream:file" : "stream:pipe") + (corrupted ? " corrupted=1" : " corrupted=0") + " m=" + rM.cat + " s=" + rS.cat;
		if (!rS.isStd) return Violation("WRONG_EXCEPTION", tags, "non-std exception");
		if (!c.seekable && seekFailed && !rS.ok) { ctx.count("pipe_seek_relaxed"); continue; }
		if (rM.ok && rS.ok)
		{
			const std::string d = ZooDiff(fm, ZooFields(zs, csv));
			if (!d.empty()) return Violation("DIVERGENCE", tags + " what=value", "memory and stream loads succeeded with different results: " + d + " cfg=" + c.str());
		}
		else if (!rM.ok && !rS.ok)
		{
			if (rM.cat != rS.cat) return Violation("DIVERGENCE", tags + " what=category", "different error categories: memory=" + rM.cat + " (" + rM.what + ") stream=" + rS.cat + " (" + rS.what + ") cfg=" + c.str());
		}
		else return Violation("DIVERGENCE", tags + " what=outcome", "memory=" + rM.cat + " (" + rM.what + ") stream=" + rS.cat + " (" + rS.what + ") cfg=" + c.str());
	}
	return out;
}

// Save leg: byte strings as programs really hold them - a std::string is not always well-formed UTF-8 (Latin-1 bytes, a text cut
// in the middle of a character). Whatever saving to memory does with such a value (write it through, report an encoding error),
// saving to a UTF-8 stream without BOM must do the same: same outcome category, same bytes.
static Outcome RawBytesSaveLeg(RunCtx& ctx, int archive)
{
	Source& s = ctx.src;
	// KF-JSON-SAVE-ILLFORMED-UTF8: the JSON stream writer validates UTF-8 (it transcodes), the JSON memory writer copies the bytes;
	// 63 of 64 runs stay outside the region
	if (archive == A_JSON && !s.chance(sim::L_CFG, 1, 64)) archive = A_XML;
	ArchiveOps& ops = GetOps(archive);
	const std::string an = ArchiveName(archive);
	SerializationOptions o = GenLoadOptions(s, sim::L_CFG, archive);
	Outcome out;
	out.cfgKey = an + "|rawsave";
	ctx.count("leg.raw_bytes_save");
	GenCfg g;
	g.archive = archive;
	g.maxNodes = 16;
	g.maxStr = 60;
	if (archive == A_CSV) g.allowEmptyContainers = false;
	DynNode doc = GenDocument(s, sim::L_DOC, g);
	uint32_t spoiled = 0;
	ForEachNode(doc, [&](DynNode& n)
	{
		if (n.kind != K::Str || !s.chance(sim::L_FAULT, 1, 2)) return;
		static const char* const tails[] = { "caf\xE9", "na\xC3", "\xED\xA0\x80", "\xFF", "\xF0\x9F\x98", "ok\x80ok" };
		n.s += s.pick(sim::L_FAULT, tails);
		++spoiled;
	});
	if (!spoiled) return out;
	std::string mem, str;
	sim::steps_begin(kBlocksPerByte * 65536);
	const CallResult rm = SaveDynWith(ops, doc, mem, o, OutCfg{});
	sim::steps_end();
	OutCfg oc;
	oc.stream = true;
	static const uint32_t bufs[] = { 0, 1, 7, 4096 };
	oc.bufSize = s.pick(sim::L_IO, bufs);
	sim::steps_begin(kBlocksPerByte * 65536);
	const CallResult rs = SaveDynWith(ops, doc, str, o, oc);
	sim::steps_end();
	ctx.note("raw-bytes save leg: archive=" + an + " ill-formed strings=" + std::to_string(spoiled) + " memory: " + rm.cat + " stream(" + oc.str() + "): " + rs.cat + " options: " + OptStr(o));
	const std::string tags = "archive=" + an + " dir=save leg=rawbytes m=" + rm.cat + " s=" + rs.cat;
	if (!rm.isStd || !rs.isStd) return Violation("WRONG_EXCEPTION", tags, "non-std exception from SaveObject");
	if (rm.ok != rs.ok || (!rm.ok && rm.cat != rs.cat)) return Violation("DIVERGENCE", tags + " what=outcome", "saving a value with ill-formed UTF-8: memory=" + rm.cat + " (" + rm.what + ") stream=" + rs.cat + " (" + rs.what + ")");
	if (rm.ok && mem != str) return Violation("DIVERGENCE", tags + " what=bytes", "stream save differs from memory save: " + DiffAt(sim::hex(mem, 4096), sim::hex(str, 4096)));
	out.nontrivial = true;
	sim::probe("illformed-bytes-saved-both-ways");
	return out;
}

Outcome RunC10(RunCtx& ctx)
{
	Source& s = ctx.src;
	const int archive = static_cast<int>(s.draw(sim::L_CFG, A_COUNT));
	if (s.chance(sim::L_CFG, 1, 24)) return RawBytesSaveLeg(ctx, archive);
	if (s.chance(sim::L_CFG, 1, 64)) return SizeClassLeg(ctx, archive);
	if (s.chance(sim::L_CFG, 1, 6)) return ZooLeg(ctx, archive);
	ArchiveOps& ops = GetOps(archive);
	GenCfg g;
	g.archive = archive;
	g.allowIntKeys = archive == A_MSGPACK || archive == A_JSON;
	g.binAsArray = true;
	// swarm: half of the runs restrict the enabled kinds
	if (s.chance(sim::L_CFG, 1, 2)) g.kindMask = s.draw(sim::L_CFG, 0xFFFFFFFFu) | (1u << static_cast<int>(K::I32));
	SerializationOptions o = GenLoadOptions(s, sim::L_CFG, archive);
	// regions of the findings owned by C01 are not entered here (they would only re-report the same defects)
	if (archive == A_CSV) g.allowEmptyContainers = false;   // KF-CSV-EMPTY-TABLE
	// KF-JSON-DOUBLE-PRECISION is about save-then-load; here both entries read the same text, so arbitrary doubles are in the domain
	// (whatever the parser makes of 17 digits, it must make the same of them from memory and from a stream)
	if (archive == A_JSON) g.simpleFloats = s.chance(sim::L_CFG, 1, 2);

	DynNode doc = GenDocument(s, sim::L_DOC, g);

	// request orders for keyed formats: document order (default), reverse, shuffled
	const uint32_t orderStyle = s.draw(sim::L_PROG, 4);
	if (orderStyle != 0 && archive != A_CSV)
	{
		ForEachNode(doc, [&](DynNode& n)
		{
			if (n.kind == K::Obj && !n.items.empty()) BuildProgram(s, sim::L_PROG, n, orderStyle == 1 ? ProgStyle::Reverse : orderStyle == 2 ? ProgStyle::Shuffle : ProgStyle::Full, archive);
		});
	}
	else if (orderStyle != 0 && archive == A_CSV)
	{
		for (auto& row : doc.items) BuildProgram(s, sim::L_PROG, row, orderStyle == 1 ? ProgStyle::Reverse : orderStyle == 2 ? ProgStyle::Shuffle : ProgStyle::Full, archive);
	}

	// validation runs (1 in 4): the reading program additionally expects Required() members the document does not have, at any
	// depth; both entries must then report the same paths and messages
	DynNode plan = doc;
	const bool validationRun = s.chance(sim::L_PROG, 1, 4);
	if (validationRun)
	{
		uint32_t idx = 0;
		ForEachNode(plan, [&](DynNode& n)
		{
			if (n.kind != K::Obj || !s.chance(sim::L_PROG, 1, 3)) return;
			Key k;
			k.s = "reqAbsent" + std::to_string(idx++);
			k.cstr = !n.keys.empty() && n.keys[0].cstr;
			n.keys.push_back(k);
			DynNode r(K::I32);
			r.required = true;
			n.items.push_back(r);
			if (n.useProgram)
			{
				ReqOp op;
				op.type = ReqOp::Get;
				op.member = static_cast<uint32_t>(n.items.size() - 1);
				n.program.insert(n.program.begin() + s.draw(sim::L_PROG, static_cast<uint32_t>(n.program.size() + 1)), op);
			}
		});
		ctx.count("validation_run");
	}

	ctx.note(std::string("archive=") + ArchiveName(archive) + " options: " + OptStr(o) + (validationRun ? " +required-but-absent members" : ""));
	if (ctx.describe) ctx.note("document: " + Pretty(doc));

	std::string bytes;
	sim::steps_begin(kBlocksPerByte * 65536);
	CallResult saved = SaveDynWith(ops, doc, bytes, o, OutCfg{});
	sim::steps_end();
	Outcome out;
	out.cfgKey = std::string(ArchiveName(archive));
	if (!saved.isStd) return Violation("WRONG_EXCEPTION", std::string("archive=") + ArchiveName(archive) + " dir=save", "non-std exception from SaveObject");
	if (!saved.ok)
	{
		ctx.note("save failed: " + saved.cat + " " + saved.what);
		ctx.count("save_failed");
		return out;
	}
	const std::string savedBytes = bytes;   // what the library wrote (the save direction below compares against it)
	if (archive == A_MSGPACK && s.chance(sim::L_CFG, 1, 4))
	{
		const uint32_t n = MsgPackAsForeignEncoder(bytes);
		if (n) { ctx.count("foreign_integer_formats", n); ctx.note("document re-encoded: " + std::to_string(n) + " non-negative integers moved to the signed formats"); }
	}
	const std::string validBytes = bytes;
	if (archive != A_MSGPACK && bytes.size() >= 3 && bytes.compare(0, 3, "\xEF\xBB\xBF") == 0)
	{
		// a text document whose first character is U+FEFF *is* a document with a BOM for every reader: outside C10's domain
		ctx.count("valid_document_starts_with_bom");
		return out;
	}

	// storage corruption between save and load (1 run in 3)
	bool corrupted = false;
	if (s.chance(sim::L_FAULT, 1, 3))
	{
		const uint32_t n = 1 + s.draw(sim::L_FAULT, 3);
		std::string what;
		for (uint32_t i = 0; i < n; ++i) what += CorruptOnce(s, sim::L_FAULT, bytes, archive == A_MSGPACK, ctx) + " ";
		if (archive != A_MSGPACK && (!IsValidUtf8NoNul(bytes) || (bytes.size() >= 3 && bytes.compare(0, 3, "\xEF\xBB\xBF") == 0)))
		{
			// outside the stated domain of the text formats (UTF-8 without BOM and without NUL): use the valid document
			bytes = validBytes;
			ctx.count("corruption_outside_domain");
		}
		else
		{
			corrupted = true;
			ctx.note("corruption: " + what);
		}
	}
	if (ctx.describe) ctx.note("bytes(" + std::to_string(bytes.size()) + "): " + sim::hex(bytes, 400));
	out.cfgKey += corrupted ? "|corrupt" : "|valid";
	const uint64_t budget = kBlocksPerByte * (bytes.size() + 4096);
	sim::stream_call_budget(64 * (bytes.size() + 4096) * 8);

	// (a) memory load = the specification
	DynNode skelM = Skeleton(plan);
	sim::steps_begin(budget);
	const CallResult rM = LoadDynWith(ops, skelM, bytes, o, InCfg{});
	sim::steps_end();
	if (!rM.isStd) return Violation("WRONG_EXCEPTION", std::string("archive=") + ArchiveName(archive) + " dir=load entry=mem", "non-std exception");
	const std::string traceM = rM.ok ? TraceRepr(skelM) : std::string();
	ctx.note("memory load: " + rM.cat + " " + rM.what);

	// (b..) stream loads under seeded delivery configurations
	const uint32_t nCfg = 1 + s.draw(sim::L_IO, 3);
	for (uint32_t j = 0; j < nCfg; ++j)
	{
		const InCfg c = DrawStreamCfg(s, sim::L_IO);
		ctx.note("stream load #" + std::to_string(j) + ": " + c.str());
		DynNode skelS = Skeleton(plan);
		LoadInfo info;
		sim::steps_begin(budget);
		const CallResult rS = LoadDynWith(ops, skelS, bytes, o, c, {}, false, &info);
		sim::steps_end();
		ctx.count(c.seekable ? "kind.file" : "kind.pipe");
		ctx.count("binChunk." + std::to_string(c.binChunk));
		if (c.prefix) { ctx.count("stream.starts_at_offset"); sim::probe("document-not-at-stream-position-0"); }
		if (info.underflows >= 2) { out.nontrivial = true; sim::probe("refill>=2"); }
		if (info.underflows >= 8) sim::probe("refill>=8");
		if (info.seekFailed) sim::probe("seek-failed");
		if (sim::ev_kind_count(sim::EV_R_SEEK_OK)) sim::probe("seek-ok");
		out.cfgKey += "|" + std::to_string(c.binChunk) + (c.seekable ? "f" : "p");
		const std::string tags = std::string("archive=") + ArchiveName(archive) + " dir=load entry=" + (c.seekable ? "stream:file" : "stream:pipe")
			+ (corrupted ? " corrupted=1" : " corrupted=0") + " order=" + (orderStyle ? "prog" : "doc") + " m=" + rM.cat + " s=" + rS.cat;
		if (!rS.isStd) return Violation("WRONG_EXCEPTION", tags, "non-std exception from stream load");
		ctx.note("  -> " + rS.cat + " " + rS.what);
		// A non-seekable source cannot serve a request that needs a seek (backwards, or forwards beyond the cached window):
		// once a seek has failed there, an exception of any category is the accepted outcome (DESIGN §6 C03/C10).
		if (!c.seekable && info.seekFailed && !rS.ok) { ctx.count("pipe_seek_relaxed"); sim::probe("pipe-seek-relaxed"); continue; }
		if (rM.ok && rS.ok)
		{
			const std::string traceS = TraceRepr(skelS);
			if (traceS != traceM) return Violation("DIVERGENCE", tags + " what=value", "memory and stream loads succeeded with different results: " + DiffAt(traceM, traceS) + " cfg=" + c.str());
		}
		else if (!rM.ok && !rS.ok)
		{
			if (rM.cat != rS.cat) return Violation("DIVERGENCE", tags + " what=category", "different error categories: memory=" + rM.cat + " (" + rM.what + ") stream=" + rS.cat + " (" + rS.what + ") cfg=" + c.str());
			if (rM.validation && rS.validation)
			{
				sim::probe("validation-paths-compared");
				if (rM.what != rS.what) return Violation("DIVERGENCE", tags + " what=validation_paths", "different validation reports: memory=" + sim::hex(rM.what, 300) + " stream=" + sim::hex(rS.what, 300) + " cfg=" + c.str());
			}
		}
		else
		{
			return Violation("DIVERGENCE", tags + " what=outcome", "memory=" + rM.cat + " (" + rM.what + ") stream=" + rS.cat + " (" + rS.what + ") cfg=" + c.str());
		}
	}

	// save direction: stream (UTF-8, no BOM) == memory, for every out-buffer size
	{
		static const uint32_t bufs[] = { 0, 1, 7, 4096 };
		OutCfg oc;
		oc.stream = true;
		oc.bufSize = s.pick(sim::L_IO, bufs);
		std::string streamBytes;
		sim::steps_begin(kBlocksPerByte * 65536);
		const CallResult rs = SaveDynWith(ops, doc, streamBytes, o, oc);
		sim::steps_end();
		if (!rs.ok || streamBytes != savedBytes)
		{
			return Violation("DIVERGENCE", std::string("archive=") + ArchiveName(archive) + " dir=save what=bytes",
				"stream save (" + oc.str() + ") " + rs.cat + " differs from memory save: " + DiffAt(sim::hex(savedBytes, 4096), sim::hex(streamBytes, 4096)));
		}
	}
	return out;
}

} // namespace hz
