// C03 — named fields load correctly in any request order, with absent and unread fields.
// System: the object document is a small store, the program is a client issuing reads, the reference is the generated
// tree; a sentinel placed after the object shows whether what was left unread has been skipped correctly.
#include "scen_util.h"
#include "zoo_gen.h"

namespace hz {

// What a request for node `d` must report as "loaded", per archive (documented null/empty rules)
static bool ExpectLoaded(int archive, const DynNode& d)
{
	if (archive == A_XML)
	{
		if (d.kind == K::Null) return false;                       // XML has no null value: an empty element is "not loaded"
		if ((d.kind == K::Arr || d.kind == K::Obj) && d.items.empty()) return false;   // a child-less element is null
		if (d.kind == K::Bin && d.bin.empty()) return false;
		if (IsString(d.kind)) return Repr(d).size() > std::string(KName(d.kind)).size() + 1;   // empty text is treated as null
	}
	if (archive == A_CSV && IsString(d.kind)) return true;       // CSV string cells are returned as they are (empty included)
	return true;
}

// The value the skeleton must hold after the program ran: requested parts from the document, the rest untouched
static DynNode Expect(const DynNode& doc, const DynNode& skel)
{
	DynNode e = Skeleton(skel);
	if (doc.kind == K::Arr)
	{
		const size_t want = skel.readCount < 0 ? doc.items.size() : std::min(doc.items.size(), static_cast<size_t>(skel.readCount));
		for (size_t i = 0; i < want; ++i) e.items[i] = Expect(doc.items[i], skel.items[i]);
	}
	else if (doc.kind == K::Obj)
	{
		if (skel.useProgram)
		{
			for (auto& op : skel.program) if (op.type == ReqOp::Get && op.member < doc.items.size()) e.items[op.member] = Expect(doc.items[op.member], skel.items[op.member]);
		}
		else
		{
			for (size_t i = 0; i < doc.items.size(); ++i) e.items[i] = Expect(doc.items[i], skel.items[i]);
		}
	}
	else
	{
		DynNode v = doc;
		v.required = false;
		return v;
	}
	return e;
}

// compares the recorded results of every programmed object against the reference; returns "" when all agree
static std::string CheckPrograms(int archive, const DynNode& doc, const DynNode& skelPlan, const DynNode& loaded, const std::string& path)
{
	// a child-less XML element is null: its scope is never opened, so no request of a nested program runs
	if (archive == A_XML && (doc.kind == K::Obj || doc.kind == K::Arr) && doc.items.empty()) return std::string();
	if (doc.kind == K::Obj && skelPlan.useProgram)
	{
		if (loaded.results.size() < skelPlan.program.size()) return path + ": only " + std::to_string(loaded.results.size()) + " of " + std::to_string(skelPlan.program.size()) + " requests were executed";
		// replay the program on the reference: the expected state of a member accumulates over repeated requests
		for (size_t i = 0; i < skelPlan.program.size(); ++i)
		{
			const ReqOp& op = skelPlan.program[i];
			const OpResult& r = loaded.results[i];
			const std::string at = path + " request#" + std::to_string(i);
			if (op.type == ReqOp::Get)
			{
				const DynNode& d = doc.items[op.member];
				const bool expLoaded = ExpectLoaded(archive, d);
				if (r.loaded != expLoaded) return at + " get '" + doc.keys[op.member].str() + "': reported " + (r.loaded ? "loaded" : "not loaded") + ", expected " + (expLoaded ? "loaded" : "not loaded");
				const std::string expRepr = Repr(Expect(d, skelPlan.items[op.member]));
				if (r.valueRepr != expRepr) return at + " get '" + doc.keys[op.member].str() + "': " + DiffAt(expRepr, r.valueRepr);
			}
			else if (op.type == ReqOp::GetAbsent)
			{
				if (r.loaded) return at + " absent key '" + op.key.str() + "' reported as loaded";
				if (!r.untouched) return at + " absent key '" + op.key.str() + "' changed the target";
			}
			else
			{
				std::string exp, act;
				for (auto& k : doc.keys) exp += k.str() + "|";
				for (auto& k : r.keys) act += k + "|";
				if (exp != act) return at + " VisitKeys: expected " + sim::hex(exp, 200) + " got " + sim::hex(act, 200);
			}
		}
	}
	// descend into what the plan reads
	if (doc.kind == K::Arr)
	{
		const size_t want = skelPlan.readCount < 0 ? doc.items.size() : std::min(doc.items.size(), static_cast<size_t>(skelPlan.readCount));
		for (size_t i = 0; i < want; ++i)
		{
			std::string e = CheckPrograms(archive, doc.items[i], skelPlan.items[i], loaded.items[i], path + "[" + std::to_string(i) + "]");
			if (!e.empty()) return e;
		}
	}
	else if (doc.kind == K::Obj)
	{
		std::vector<bool> visit(doc.items.size(), !skelPlan.useProgram);
		if (skelPlan.useProgram) for (auto& op : skelPlan.program) if (op.type == ReqOp::Get) visit[op.member] = true;
		for (size_t i = 0; i < doc.items.size(); ++i)
		{
			if (!visit[i]) continue;
			// a member requested several times accumulates several result lists: only singly requested members are descended
			size_t times = 0;
			if (skelPlan.useProgram) for (auto& op : skelPlan.program) if (op.type == ReqOp::Get && op.member == i) ++times;
			if (times > 1) continue;
			std::string e = CheckPrograms(archive, doc.items[i], skelPlan.items[i], loaded.items[i], path + "." + doc.keys[i].str());
			if (!e.empty()) return e;
		}
	}
	return std::string();
}

static bool NeedsOrderOtherThanDoc(const DynNode& obj)
{
	uint32_t last = 0;
	bool first = true;
	for (auto& op : obj.program)
	{
		if (op.type != ReqOp::Get) return true;
		if (!first && op.member <= last) return true;
		last = op.member;
		first = false;
	}
	return false;
}

// Std-adapter leg: a document that omits a seeded subset of the members of a struct holding every std adapter, loaded into a
// populated object: every absent member must keep its value (optional and smart pointers are documented to be reset instead).
static Outcome AbsentMembersLeg(RunCtx& ctx, int archive)
{
	Source& s = ctx.src;
	ArchiveOps& ops = GetOps(archive);
	const std::string an = ArchiveName(archive);
	SerializationOptions o = GenLoadOptions(s, sim::L_CFG, archive);
	ZooGenCfg zg;
	zg.archive = archive;
	zg.maxLen = 5;
	Zoo docZ;
	GenZoo(s, sim::L_DOC, docZ, zg);
	const size_t nMembers = sizeof(kZooOrder) / sizeof(kZooOrder[0]);
	uint64_t mask = 0;
	for (size_t i = 0; i < nMembers; ++i) if (s.chance(sim::L_PROG, 1, 2)) mask |= (1ull << i);
	docZ.saveMask = mask;
	std::string bytes;
	CallResult sv = SaveZooWith(ops, docZ, bytes, o, OutCfg{});
	Outcome out;
	out.cfgKey = an + "|absent";
	if (!sv.ok) return out;
	Zoo target;
	GenZoo(s, sim::L_PROG, target, zg);
	target.skipIntKeyMaps = docZ.skipIntKeyMaps;
	const auto before = ZooFields(target, false);
	InCfg c;
	if (s.chance(sim::L_IO, 1, 2)) { c = DrawStreamCfg(s, sim::L_IO); c.seekable = true; }
	ctx.note("absent-members leg: archive=" + an + " members saved mask=" + std::to_string(mask) + " via " + c.str());
	ctx.count("leg.absent_members");
	// every absent member costs one full scan of the object (a keyed format has no index): the budget is per scan
	uint64_t absentCount = 0;
	for (size_t i = 0; i < nMembers; ++i) if (!(mask & (1ull << i))) ++absentCount;
	sim::steps_begin(3000ull * (bytes.size() + 4096) * (1 + absentCount));
	sim::stream_call_budget(64 * (bytes.size() + 4096) * 8 * (1 + absentCount));
	const CallResult r = LoadZooWith(ops, target, bytes, o, c);
	sim::steps_end();
	const std::string tags = "archive=" + an + " leg=absent entry=" + (c.stream ? "stream:file" : "mem");
	if (!r.isStd) return Violation("WRONG_EXCEPTION", tags, "non-std exception");
	if (!r.ok) return Violation("WRONG_EXCEPTION", tags + " what=load_failed exc=" + r.cat, "loading a document that omits members failed: " + r.cat + " (" + r.what + ")");
	const auto after = ZooFields(target, false);
	out.nontrivial = true;
	for (size_t i = 0; i < nMembers; ++i)
	{
		if (mask & (1ull << i)) continue;
		const std::string name = kZooOrder[i];
		if (name == "imap" && docZ.skipIntKeyMaps) continue;
		const std::string& b = before.at(name);
		const std::string& a2 = after.at(name);
		const bool resettable = name == "opt" || name == "optStr" || name == "uptr" || name == "sptr" || name == "uobj" || name == "optDur" || name == "uDur";
		if (a2 == b) continue;
		if (resettable && a2 == "null") continue;
		return Violation("WRONG_VALUE", tags + " what=absent_changed member=" + name, "member '" + name + "' is absent from the document but the target changed: before=" + b.substr(0, 120) + " after=" + a2.substr(0, 120));
	}
	return out;
}

Outcome RunC03(RunCtx& ctx)
{
	Source& s = ctx.src;
	const int archive = static_cast<int>(s.draw(sim::L_CFG, A_COUNT));
	if (archive != A_CSV && s.chance(sim::L_CFG, 1, 8)) return AbsentMembersLeg(ctx, archive);
	ArchiveOps& ops = GetOps(archive);
	const std::string an = ArchiveName(archive);
	GenCfg g;
	g.archive = archive;
	g.allowIntKeys = archive == A_MSGPACK || archive == A_JSON;
	g.binAsArray = true;
	g.maxNodes = 24;
	g.maxDepth = 3;
	if (s.chance(sim::L_CFG, 1, 2)) g.kindMask = s.draw(sim::L_CFG, 0xFFFFFFFFu) | (1u << static_cast<int>(K::I32));
	// regions of the findings owned by C01 are not entered here (they would only re-report the same defects)
	if (archive == A_JSON) g.simpleFloats = true;            // KF-JSON-DOUBLE-PRECISION
	SerializationOptions o = GenLoadOptions(s, sim::L_CFG, archive);

	// ---- the store: object under test + sentinel after it ----
	DynNode root;
	DynNode* objPtr = nullptr;
	if (archive == A_CSV)
	{
		g.allowEmptyContainers = false;
		GenCsvTable(s, sim::L_DOC, root, g);
		// sentinel = one more row after the row under test
		if (root.items.size() < 2) root.items.push_back(root.items[0]);
		objPtr = &root.items[0];
	}
	else
	{
		DynNode obj(K::Obj);
		uint32_t budget = g.maxNodes;
		GenTree(s, sim::L_DOC, obj, g, 1, budget);
		if (archive == A_XML && obj.items.empty())
		{
			// a child-less XML element is null, not an object: the object under test has at least one key there
			Key k; k.s = "k0";
			obj.keys.push_back(k);
			obj.items.emplace_back(K::I32);
		}
		DynNode sentinel(s.chance(sim::L_DOC, 1, 2) ? K::I32 : K::Str);
		sentinel.i32 = 0x5E471E1;
		sentinel.s = "sentinel-after-object";
		const uint32_t wrap = s.draw(sim::L_DOC, 2);
		if (wrap == 0)
		{
			root = DynNode(K::Arr);
			root.items.push_back(std::move(obj));
			root.items.push_back(sentinel);
			objPtr = &root.items[0];
		}
		else
		{
			root = DynNode(K::Obj);
			// alignment padding in front so that the object slides across the reader's chunk boundary
			DynNode pad(K::Str);
			pad.s.assign(GenLength(s, sim::L_DOC, 300), 'p');
			if (archive == A_XML && pad.s.empty()) pad.s = "p";
			Key kp; kp.s = "apad";
			Key ko; ko.s = "obj";
			Key ks; ks.s = "zsentinel";
			root.keys = { kp, ko, ks };
			root.items.push_back(pad);
			root.items.push_back(std::move(obj));
			root.items.push_back(sentinel);
			objPtr = &root.items[1];
		}
	}
	DynNode& obj = *objPtr;

	// ---- the client program ----
	BuildProgram(s, sim::L_PROG, obj, ProgStyle::Full, archive);
	if (archive != A_CSV)
	{
		for (auto& c : obj.items)
		{
			if (c.kind == K::Obj && s.chance(sim::L_PROG, 1, 2)) BuildProgram(s, sim::L_PROG, c, s.chance(sim::L_PROG, 1, 2) ? ProgStyle::Full : ProgStyle::Reverse, archive);
			if (c.kind == K::Arr && !c.items.empty() && s.chance(sim::L_PROG, 1, 3)) c.readCount = static_cast<int32_t>(s.draw(sim::L_PROG, static_cast<uint32_t>(c.items.size())));
		}
	}
	ctx.note("archive=" + an + " options: " + OptStr(o));
	if (ctx.describe) ctx.note("store+program: " + Pretty(root));
	ctx.count("archive." + an);

	std::string bytes;
	sim::steps_begin(3000ull * 70000);
	CallResult saved = SaveDynWith(ops, root, bytes, o, OutCfg{});
	sim::steps_end();
	Outcome out;
	out.cfgKey = an;
	if (!saved.isStd) return Violation("WRONG_EXCEPTION", "archive=" + an + " dir=save", "non-std exception");
	if (!saved.ok) { ctx.count("save_failed"); return out; }
	if (archive != A_MSGPACK && bytes.size() >= 3 && bytes.compare(0, 3, "\xEF\xBB\xBF") == 0) { ctx.count("valid_document_starts_with_bom"); return out; }
	// 1 MessagePack document in 4 is rewritten the way other encoders write it (non-negative integers, keys included, in the signed formats)
	if (archive == A_MSGPACK && s.chance(sim::L_CFG, 1, 4))
	{
		const uint32_t n = MsgPackAsForeignEncoder(bytes);
		if (n) { ctx.count("foreign_integer_formats", n); sim::probe("document-from-another-encoder"); ctx.note("document re-encoded: " + std::to_string(n) + " non-negative integers moved to the signed formats"); }
	}
	if (ctx.describe) ctx.note("bytes(" + std::to_string(bytes.size()) + "): " + sim::hex(bytes, 300));
	const uint64_t budget = 3000ull * (bytes.size() + 4096);
	sim::stream_call_budget(64 * (bytes.size() + 4096) * 8);
	const bool reordered = NeedsOrderOtherThanDoc(obj);

	std::string traceM;
	const uint32_t nStream = 1 + s.draw(sim::L_IO, 2);
	for (uint32_t j = 0; j <= nStream; ++j)
	{
		InCfg c;
		if (j > 0) c = DrawStreamCfg(s, sim::L_IO);
		ctx.note("load #" + std::to_string(j) + " via " + c.str());
		DynNode skel = Skeleton(root);
		LoadInfo info;
		sim::steps_begin(budget);
		const CallResult r = LoadDynWith(ops, skel, bytes, o, c, {}, false, &info);
		sim::steps_end();
		const std::string tags = "archive=" + an + " entry=" + (c.stream ? (c.seekable ? "stream:file" : "stream:pipe") : "mem") + " order=" + (reordered ? "prog" : "doc");
		ctx.note("  -> " + r.cat + " " + r.what);
		if (c.stream && info.underflows >= 2 && reordered) { out.nontrivial = true; sim::probe("reordered-on-stream-with-refill"); }
		if (c.stream) { ctx.count(c.seekable ? "kind.file" : "kind.pipe"); ctx.count("binChunk." + std::to_string(c.binChunk)); }
		if (sim::ev_kind_count(sim::EV_R_SEEK_OK)) sim::probe("seek-ok");
		if (!r.isStd) return Violation("WRONG_EXCEPTION", tags, "non-std exception");
		if (!r.ok)
		{
			// a non-seekable source cannot serve a request that needs a seek: a SerializationException is accepted there, never a wrong value
			if (c.stream && !c.seekable && info.seekFailed) { ctx.count("pipe_seek_relaxed"); sim::probe("pipe-seek-relaxed"); continue; }
			return Violation("WRONG_EXCEPTION", tags + " what=load_failed exc=" + r.cat, "loading a valid document with this request program failed: " + r.cat + " (" + r.what + ")");
		}
		const DynNode& loadedObj = archive == A_CSV ? skel.items[0] : (root.kind == K::Arr ? skel.items[0] : skel.items[1]);
		std::string err = CheckPrograms(archive, obj, obj, loadedObj, "obj");
		if (!err.empty()) return Violation("WRONG_VALUE", tags + " what=request", err);
		// data following the object is still read correctly
		const DynNode& expSentinel = archive == A_CSV ? root.items[1] : (root.kind == K::Arr ? root.items[1] : root.items[2]);
		const DynNode& gotSentinel = archive == A_CSV ? skel.items[1] : (root.kind == K::Arr ? skel.items[1] : skel.items[2]);
		if (Repr(expSentinel) != Repr(gotSentinel)) return Violation("WRONG_VALUE", tags + " what=sentinel", "data following the object was not read correctly: " + DiffAt(Repr(expSentinel), Repr(gotSentinel)));
		if (archive != A_CSV && root.kind == K::Arr && (skel.loadedCount != 2 || skel.extra)) return Violation("WRONG_VALUE", tags + " what=sentinel", "root array read " + std::to_string(skel.loadedCount) + " of 2 elements");
		const std::string trace = TraceRepr(skel);
		if (j == 0) traceM = trace;
		else if (trace != traceM) return Violation("DIVERGENCE", tags + " what=value", "memory and stream gave different results: " + DiffAt(traceM, trace));
	}
	return out;
}

} // namespace hz
