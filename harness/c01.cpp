// C01 — save then load reproduces the value in every archive and output configuration; load-save-load is a fixed point.
// Honest scope: the configuration half (where the bytes go, how they come back, encoding, BOM, formatting, reader, chunk
// size) is what the simulator owns; the value half is seeded sampling.
#include "scen_util.h"
#include "zoo_gen.h"

namespace hz {

static const uint64_t kBudget = 3000ull * 70000;

// Value equality: bit-equality for integers and floats (all NaNs are one value), code units for strings, order for sequences.
static bool EqualValues(const DynNode& a, const DynNode& b, std::string& where)
{
	if (a.kind != b.kind) { where = "kind"; return false; }
	bool eq = true;
	switch (a.kind)
	{
	case K::F32: eq = (std::isnan(a.f32) && std::isnan(b.f32)) || memcmp(&a.f32, &b.f32, 4) == 0; break;
	case K::F64: eq = (std::isnan(a.f64) && std::isnan(b.f64)) || memcmp(&a.f64, &b.f64, 8) == 0; break;
	case K::Arr:
	case K::Obj:
		if (a.items.size() != b.items.size()) { where = "size"; return false; }
		for (size_t i = 0; i < a.items.size(); ++i)
		{
			if (!EqualValues(a.items[i], b.items[i], where))
			{
				where = (a.kind == K::Obj ? "." + a.keys[i].str() : "[" + std::to_string(i) + "]") + where;
				return false;
			}
		}
		return true;
	default:
		eq = Repr(a) == Repr(b);
	}
	if (!eq) where = std::string(":") + KName(a.kind) + " expected=" + Repr(a).substr(0, 120) + " actual=" + Repr(b).substr(0, 120);
	return eq;
}

// every array of the skeleton must have been read completely and the document must not have had more elements
static bool ShapeComplete(const DynNode& n, std::string& where)
{
	if (n.kind == K::Arr && (n.loadedCount != n.items.size() || n.extra))
	{
		where = "array read " + std::to_string(n.loadedCount) + " of " + std::to_string(n.items.size()) + (n.extra ? " and the document has more" : "");
		return false;
	}
	for (auto& c : n.items) if (!ShapeComplete(c, where)) return false;
	return true;
}

static const char* EncName(int e) { static const char* n[] = { "utf8", "utf16le", "utf16be", "utf32le", "utf32be" }; return n[e]; }

Outcome RunC01(RunCtx& ctx)
{
	Source& s = ctx.src;
	const int archive = static_cast<int>(s.draw(sim::L_CFG, A_COUNT));
	ArchiveOps& ops = GetOps(archive);
	const std::string an = ArchiveName(archive);
	GenCfg g;
	g.archive = archive;
	g.allowIntKeys = archive == A_MSGPACK || archive == A_JSON || archive == A_CSV;
	g.allowNonFinite = s.chance(sim::L_CFG, 1, 16);
	if (s.chance(sim::L_CFG, 1, 2)) g.kindMask = s.draw(sim::L_CFG, 0xFFFFFFFFu) | (1u << static_cast<int>(K::I32));
	// KF avoid-predicates (1 run in 64 enters the region on purpose)
	const bool avoid = !s.chance(sim::L_CFG, 1, 64);
	if (archive == A_CSV && avoid) g.allowEmptyContainers = false;      // KF-CSV-EMPTY-TABLE
	if (archive == A_JSON && avoid) g.simpleFloats = true;              // KF-JSON-DOUBLE-PRECISION

	SerializationOptions o = GenLoadOptions(s, sim::L_CFG, archive);
	OutCfg oc;
	oc.stream = s.chance(sim::L_CFG, 1, 2);
	int enc = 0;
	bool bom = false;
	if (oc.stream)
	{
		static const uint32_t bufs[] = { 0, 1, 7, 64, 4096 };
		oc.bufSize = s.pick(sim::L_CFG, bufs);
		if (archive != A_MSGPACK)
		{
			enc = static_cast<int>(s.draw(sim::L_CFG, 5));
			bom = s.chance(sim::L_CFG, 1, 2);
		}
	}
	o.streamOptions.encoding = static_cast<BitSerializer::Convert::Utf::UtfType>(enc);
	o.streamOptions.writeBom = bom;
	if (s.chance(sim::L_CFG, 1, 3))
	{
		o.formatOptions.enableFormat = true;
		o.formatOptions.paddingChar = s.chance(sim::L_CFG, 1, 2) ? '\t' : ' ';
		o.formatOptions.paddingCharNum = static_cast<uint16_t>(1 + s.draw(sim::L_CFG, 8));
	}

	// KF-JSON-BOMLESS-DETECT: RapidJSON recognises BOM-less UTF-16/32 only from the first four bytes of two ASCII characters
	if (archive == A_JSON && oc.stream && !bom && enc != 0 && avoid) g.forceContainerRoot = true;
	// std-adapter leg (1 run in 4): the same pipeline with a struct holding every std container/optional/smart pointer/tuple/pair/
	// chrono/enum/base-class adapter (drawn last in the cfg lane so that older replay files keep their meaning)
	if (s.chance(sim::L_CFG, 1, 4))
	{
		ZooGenCfg zg;
		zg.archive = archive;
		zg.allowEmpty = !(archive == A_CSV && avoid);     // KF-CSV-EMPTY-TABLE
		zg.jumboMember = DrawJumbo(s, sim::L_CFG, 6);
		Zoo z;
		GenZoo(s, sim::L_DOC, z, zg);
		if (zg.jumboMember >= 0 && archive != A_CSV) { ctx.count(std::string("jumbo.") + JumboName(zg.jumboMember)); sim::probe("container-above-estimate-cap"); }
		if (archive == A_CSV && avoid) EnsureCsvRow(z);
		ctx.note("archive=" + an + " model=zoo out=" + oc.str() + " options: " + OptStr(o));
		ctx.count("archive." + an);
		ctx.count("model.zoo");
		Outcome zout;
		zout.cfgKey = an + "|zoo|" + oc.str() + "|" + EncName(enc) + (bom ? "b" : "");
		const std::string zt = "archive=" + an + " model=zoo out=" + (oc.stream ? "stream" : "mem") + " enc=" + EncName(enc) + (bom ? " bom=1" : " bom=0") + (o.formatOptions.enableFormat ? " format=1" : " format=0");
		std::string zbytes;
		sim::steps_begin(kBudget);
		CallResult zs = SaveZooWith(ops, z, zbytes, o, oc);
		sim::steps_end();
		if (!zs.isStd) return Violation("WRONG_EXCEPTION", zt + " dir=save", "non-std exception from SaveObject");
		if (!zs.ok) { ctx.note("save failed: " + zs.cat + " " + zs.what); ctx.count("save_failed"); return zout; }
		InCfg zic;
		const bool zmem = !oc.stream || archive == A_MSGPACK || (enc == 0 && !bom);
		if (!zmem || s.chance(sim::L_IO, 1, 2)) { zic = DrawStreamCfg(s, sim::L_IO); zic.seekable = true; }   // map loading needs backward seeks
		ctx.note("load via " + zic.str());
		Zoo fresh;
		fresh.skipIntKeyMaps = z.skipIntKeyMaps;
		fresh.csvRoot = z.csvRoot;
		sim::steps_begin(3000ull * (zbytes.size() + 4096));
		sim::stream_call_budget(64 * (zbytes.size() + 4096) * 8);
		const CallResult zr = LoadZooWith(ops, fresh, zbytes, o, zic);
		sim::steps_end();
		zout.nontrivial = oc.stream || zic.stream;
		const std::string ztl = zt + " in=" + (zic.stream ? "stream:file" : "mem") + " dir=load";
		if (!zr.isStd) return Violation("WRONG_EXCEPTION", ztl, "non-std exception from LoadObject");
		if (!zr.ok) return Violation("WRONG_EXCEPTION", ztl + " what=unloadable exc=" + zr.cat, "the saved document cannot be loaded: " + zr.cat + " (" + zr.what + ")");
		const bool csv = archive == A_CSV;
		const std::string diff = ZooDiff(ZooFields(z, csv), ZooFields(fresh, csv));
		if (!diff.empty()) return Violation("WRONG_VALUE", ztl + " what=value member=" + diff.substr(0, diff.find(':')), "loaded value differs from the saved one: " + diff);
		// fixed point
		std::string zbytes2;
		CallResult zs2 = SaveZooWith(ops, fresh, zbytes2, o, oc);
		if (!zs2.ok) return Violation("WRONG_EXCEPTION", zt + " dir=resave exc=" + zs2.cat, "saving the loaded value failed: " + zs2.what);
		Zoo fresh2;
		fresh2.skipIntKeyMaps = z.skipIntKeyMaps;
		fresh2.csvRoot = z.csvRoot;
		const CallResult zr2 = LoadZooWith(ops, fresh2, zbytes2, o, zic);
		if (!zr2.ok) return Violation("WRONG_EXCEPTION", ztl + " what=fixedpoint exc=" + zr2.cat, "load-save-load: second load failed: " + zr2.what);
		const std::string diff2 = ZooDiff(ZooFields(fresh, csv), ZooFields(fresh2, csv));
		if (!diff2.empty()) return Violation("WRONG_VALUE", ztl + " what=fixedpoint member=" + diff2.substr(0, diff2.find(':')), "load-save-load is not a fixed point: " + diff2);
		return zout;
	}

	DynNode doc = GenDocument(s, sim::L_DOC, g);
	ctx.note("archive=" + an + " out=" + oc.str() + " options: " + OptStr(o));
	if (ctx.describe) ctx.note("value: " + Pretty(doc));
	ctx.count("archive." + an);
	ctx.count(std::string("enc.") + EncName(enc) + (bom ? "+bom" : ""));

	Outcome out;
	out.cfgKey = an + "|" + oc.str() + "|" + EncName(enc) + (bom ? "b" : "") + (o.formatOptions.enableFormat ? "|fmt" : "");
	const std::string baseTags = "archive=" + an + " out=" + (oc.stream ? "stream" : "mem") + " enc=" + EncName(enc) + (bom ? " bom=1" : " bom=0") + (o.formatOptions.enableFormat ? " format=1" : " format=0");

	std::string bytes;
	sim::steps_begin(kBudget);
	CallResult saved = SaveDynWith(ops, doc, bytes, o, oc);
	sim::steps_end();
	if (!saved.isStd) return Violation("WRONG_EXCEPTION", baseTags + " dir=save", "non-std exception from SaveObject");
	if (!saved.ok)
	{
		// "or the save fails with an exception": a legitimate outcome
		ctx.note("save failed: " + saved.cat + " " + saved.what);
		ctx.count("save_failed");
		return out;
	}
	if (ctx.describe) ctx.note("bytes(" + std::to_string(bytes.size()) + "): " + sim::hex(bytes, 300));

	// how the bytes come back
	InCfg ic;
	const bool memLoadable = !oc.stream || archive == A_MSGPACK || (enc == 0 && !bom);
	if (!memLoadable || s.chance(sim::L_IO, 1, 2)) ic = DrawStreamCfg(s, sim::L_IO);
	// the request order of a fresh load is the document order; pipes are fine for that
	ctx.note("load via " + ic.str());
	sim::stream_call_budget(64 * (bytes.size() + 4096) * 8);

	DynNode skel = Skeleton(doc);
	LoadInfo info;
	sim::steps_begin(3000ull * (bytes.size() + 4096));
	const CallResult r = LoadDynWith(ops, skel, bytes, o, ic, {}, false, &info);
	sim::steps_end();
	const std::string tags = baseTags + " in=" + (ic.stream ? (ic.seekable ? "stream:file" : "stream:pipe") : "mem") + " dir=load";
	if (info.underflows >= 2 || enc != 0) out.nontrivial = oc.stream || ic.stream;
	if (info.underflows >= 2) sim::probe("refill>=2");
	if (enc != 0) sim::probe("non-utf8-encoding");
	if (!r.isStd) return Violation("WRONG_EXCEPTION", tags, "non-std exception from LoadObject");
	if (!r.ok)
	{
		// a non-seekable source cannot serve a seek; the MsgPack reader needs one even in document order when the header of an
		// ext value (timestamp) straddles its window (stated relaxation, as in C03/C10): an exception is accepted there
		if (ic.stream && !ic.seekable && info.seekFailed) { ctx.count("pipe_seek_relaxed"); sim::probe("pipe-seek-relaxed"); return out; }
		return Violation("WRONG_EXCEPTION", tags + " what=unloadable exc=" + r.cat, "the saved document cannot be loaded: " + r.cat + " (" + r.what + ")");
	}
	std::string where;
	if (!EqualValues(doc, skel, where)) return Violation("WRONG_VALUE", tags + " what=value", "loaded value differs from the saved one at " + where);
	if (!ShapeComplete(skel, where)) return Violation("WRONG_VALUE", tags + " what=shape", where);

	// fixed point: save(load(bytes)) loads to the same value
	std::string bytes2;
	sim::steps_begin(kBudget);
	CallResult saved2 = SaveDynWith(ops, skel, bytes2, o, oc);
	sim::steps_end();
	if (!saved2.ok) return Violation("WRONG_EXCEPTION", baseTags + " dir=resave exc=" + saved2.cat, "saving the loaded value failed although saving the original succeeded: " + saved2.what);
	DynNode skel2 = Skeleton(doc);
	sim::steps_begin(3000ull * (bytes2.size() + 4096));
	const CallResult r2 = LoadDynWith(ops, skel2, bytes2, o, ic);
	sim::steps_end();
	if (!r2.ok && ic.stream && !ic.seekable) return out;
	if (!r2.ok) return Violation("WRONG_EXCEPTION", tags + " what=fixedpoint exc=" + r2.cat, "load-save-load: second load failed: " + r2.what);
	if (!EqualValues(skel, skel2, where)) return Violation("WRONG_VALUE", tags + " what=fixedpoint", "load-save-load is not a fixed point at " + where);
	return out;
}

} // namespace hz
