// C20 — every failure surfaces as a catchable exception: no terminate, no leak.
// Level: fault enumeration. One run = one seeded scenario (archive x model x direction x entry) and one fault kind,
// whose EVERY position is injected in turn: EOF at every byte, the k-th operator new failing for every k, the streambuf
// failing (silently / by throwing) at every byte, and library-detected errors at every place the scenario offers.
#include "scen_util.h"
#include "zoo_gen.h"

namespace hz {

enum FaultKind { F_EOF = 0, F_ALLOC_LOAD, F_FAIL_LOAD, F_THROW_LOAD, F_ALLOC_SAVE, F_FAIL_SAVE, F_THROW_SAVE, F_LIB_CSV_WIDTH, F_LIB_MISMATCH, F_LIB_BAD_UTF, F_LIB_SIZE_LIE, F_LIB_BAD_OPTION, F_HUGE_COUNT, F_COUNT };
static const char* FaultName(int k)
{
	static const char* n[] = { "eof", "alloc_fail_load", "fail_load", "throw_load", "alloc_fail_save", "fail_save", "throw_save", "lib_csv_width", "lib_mismatch", "lib_bad_utf", "lib_size_lie", "lib_bad_option", "huge_count" };
	return n[k];
}

struct Scenario
{
	int archive = 0;
	bool zoo = false;
	bool stream = false;
	InCfg in;
	OutCfg outCfg;
	SerializationOptions o;
	DynNode doc;          // dyn family (with programs: some members are never requested)
	DynNode plan;         // reading program when it differs from the document's own shape (validators that fail)
	bool hasPlan = false;
	bool duringUnwind = false;   // the operation is called from a destructor that runs while another exception unwinds the stack
	Zoo zooValue;         // zoo family
	std::string bytes;    // the intact document
	ArchiveOps* ops = nullptr;
};

// result of one guarded call; fixed-size text so that nothing allocated inside the armed ledger outlives it
struct SubRes
{
	bool ok = false;
	bool isStd = true;
	char catBuf[128] = "";
	char whatBuf[320] = "";
	std::string cat;     // filled by Finish() after the ledger is closed
	std::string what;
	void Set(const CallResult& c)
	{
		ok = c.ok; isStd = c.isStd;
		snprintf(catBuf, sizeof catBuf, "%s", c.cat.c_str());
		snprintf(whatBuf, sizeof whatBuf, "%s", c.what.c_str());
	}
	void Finish() { cat = catBuf; what = whatBuf; }
};

struct SubResult
{
	SubRes r;
	bool faultFired = false;
	bool streamFailed = false;
	int64_t leakBlocks = 0;
	int64_t leakBytes = 0;
	uint64_t allocs = 0;      // allocations inside the library call
	std::string reloadFatal;
};

// Runs f from a destructor executed by stack unwinding (cleanup code that saves or loads state); f does not let anything escape
struct UnrelatedError { int code; };
template <class F>
static void CallMaybeDuringUnwind(bool duringUnwind, F&& f)
{
	if (!duringUnwind) { f(); return; }
	struct OnUnwind { F& fn; ~OnUnwind() { fn(); } };
	try
	{
		OnUnwind guard{ f };
		throw UnrelatedError{ 42 };
	}
	catch (const UnrelatedError&) {}
}

// One guarded library call with the whole life cycle of target, streams and temporaries inside the armed ledger
template <class Body>
static SubResult Ledgered(Body&& body)
{
	SubResult res;
	sim::alloc_arm(0);
	{
		body(res);
	}
	res.leakBlocks = sim::alloc().live;
	res.leakBytes = sim::alloc().liveBytes;
	sim::alloc_disarm();
	res.r.Finish();
	return res;
}

static SubResult DoLoad(Scenario& sc, const std::string& bytes, sim::InFaults faults, bool throwMode, uint64_t failAlloc, bool forceMem = false, bool forceStream = false)
{
	InCfg c = sc.in;
	if (forceMem) c.stream = false;
	if (forceStream) { c.stream = true; }
	sim::steps_begin(3000ull * (bytes.size() + sc.bytes.size() + 8192));
	return Ledgered([&](SubResult& res)
	{
		LoadInfo info;
		if (sc.zoo)
		{
			Zoo target;
			target.skipIntKeyMaps = sc.zooValue.skipIntKeyMaps;
			target.csvRoot = sc.zooValue.csvRoot;
			t_failAllocNext = failAlloc;
			CallMaybeDuringUnwind(sc.duringUnwind, [&] { res.r.Set(LoadZooWith(*sc.ops, target, bytes, sc.o, c, faults, throwMode, &info)); });
			res.allocs = t_lastCallAllocs;
			res.faultFired = info.faultFired || sim::alloc().failFired;
			// the partly loaded target must still be usable as an object: load the intact document into it
			if (!res.r.ok) { InCfg mem; CallResult again = LoadZooWith(*sc.ops, target, sc.bytes, sc.o, mem); (void)again; }
		}
		else
		{
			DynNode target = Skeleton(sc.hasPlan ? sc.plan : sc.doc);
			t_failAllocNext = failAlloc;
			CallMaybeDuringUnwind(sc.duringUnwind, [&] { res.r.Set(LoadDynWith(*sc.ops, target, bytes, sc.o, c, faults, throwMode, &info)); });
			res.allocs = t_lastCallAllocs;
			res.faultFired = info.faultFired || sim::alloc().failFired;
			if (!res.r.ok) { InCfg mem; CallResult again = LoadDynWith(*sc.ops, target, sc.bytes, sc.o, mem); (void)again; }
		}
		res.streamFailed = info.streamFail || info.streamBad;
	});
}

static SubResult DoSave(Scenario& sc, DynNode* altDoc, sim::OutFaults faults, uint64_t failAlloc, std::string* outBytes = nullptr)
{
	sim::steps_begin(3000ull * (sc.bytes.size() + 65536));
	return Ledgered([&](SubResult& res)
	{
		std::string bytes;
		bool fired = false, sfail = false;
		t_failAllocNext = failAlloc;
		CallMaybeDuringUnwind(sc.duringUnwind, [&]
		{
			if (sc.zoo) res.r.Set(SaveZooWith(*sc.ops, sc.zooValue, bytes, sc.o, sc.outCfg, faults, &fired, &sfail));
			else res.r.Set(SaveDynWith(*sc.ops, altDoc ? *altDoc : sc.doc, bytes, sc.o, sc.outCfg, faults, &fired, &sfail));
		});
		res.allocs = t_lastCallAllocs;
		res.faultFired = fired || sim::alloc().failFired;
		res.streamFailed = sfail;
		if (outBytes) { sim::alloc().armed = false; *outBytes = bytes; sim::alloc().armed = true; }
	});
}

static bool AllowedException(const SubRes& r) { return r.ok || r.isStd; }

Outcome RunC20(RunCtx& ctx)
{
	Source& s = ctx.src;
	Scenario sc;
	sc.archive = static_cast<int>(s.draw(sim::L_CFG, A_COUNT));
	sc.ops = &GetOps(sc.archive);
	const std::string an = ArchiveName(sc.archive);
	sc.zoo = s.chance(sim::L_CFG, 1, 3);
	sc.o = GenLoadOptions(s, sim::L_CFG, sc.archive);
	int kind = static_cast<int>(s.draw(sim::L_FAULT, F_COUNT));
	sc.stream = s.chance(sim::L_CFG, 1, 2);
	if (kind == F_FAIL_LOAD || kind == F_THROW_LOAD || kind == F_FAIL_SAVE || kind == F_THROW_SAVE) sc.stream = true;
	if (kind >= F_LIB_CSV_WIDTH) sc.zoo = false;
	if (kind == F_LIB_CSV_WIDTH && sc.archive != A_CSV) sc.archive = A_CSV, sc.ops = &GetOps(A_CSV), sc.o.valuesSeparator = ',';
	if (kind == F_LIB_SIZE_LIE || kind == F_HUGE_COUNT) { sc.archive = A_MSGPACK; sc.ops = &GetOps(A_MSGPACK); }
	if (kind == F_LIB_BAD_OPTION) { sc.archive = A_CSV; sc.ops = &GetOps(A_CSV); sc.o.valuesSeparator = ','; }
	if (sc.stream) { sc.in = DrawStreamCfg(s, sim::L_IO); sc.outCfg.stream = true; static const uint32_t bufs[] = { 0, 1, 16, 4096 }; sc.outCfg.bufSize = s.pick(sim::L_IO, bufs); }
	if (sc.stream && sc.archive != A_MSGPACK && s.chance(sim::L_CFG, 1, 3))
	{
		sc.o.streamOptions.encoding = static_cast<BitSerializer::Convert::Utf::UtfType>(s.draw(sim::L_CFG, 5));
		sc.o.streamOptions.writeBom = true;
	}
	const std::string arch = ArchiveName(sc.archive);
	// 1 scenario in 4 runs every operation from a destructor during stack unwinding; 1 throwing-stream scenario in 2 has failbit/eofbit
	// in the stream's exception mask as well
	sc.duringUnwind = s.chance(sim::L_CFG, 1, 4);
	if (kind == F_THROW_LOAD && s.chance(sim::L_CFG, 1, 2)) sc.in.excMask = DrawExceptionMask(s, sim::L_CFG);

	// ---- the scenario's document (small enough for a full sweep) ----
	if (sc.zoo)
	{
		ZooGenCfg zg;
		zg.archive = sc.archive;
		zg.maxLen = 4;
		GenZoo(s, sim::L_DOC, sc.zooValue, zg);
		if (sc.archive == A_CSV) EnsureCsvRow(sc.zooValue);
	}
	else
	{
		GenCfg g;
		g.archive = sc.archive;
		g.maxStr = 60;
		g.maxNodes = 24;
		g.allowIntKeys = sc.archive == A_MSGPACK;
		if (sc.archive == A_CSV) g.allowEmptyContainers = false;
		if (sc.archive == A_JSON) g.simpleFloats = true;
		g.forceContainerRoot = true;
		sc.doc = GenDocument(s, sim::L_DOC, g);
		// partially read objects: the unread-member skip of the MsgPack object scope has work to do
		if (sc.archive != A_CSV && (s.chance(sim::L_PROG, 1, 2) || kind == F_EOF || kind == F_FAIL_LOAD))
		{
			ForEachNode(sc.doc, [&](DynNode& n)
			{
				if (n.kind == K::Obj && n.items.size() >= 2 && s.chance(sim::L_PROG, 1, 2))
				{
					BuildProgram(s, sim::L_PROG, n, ProgStyle::Shuffle, sc.archive);
					n.program.resize(1 + s.draw(sim::L_PROG, static_cast<uint32_t>(n.program.size())));
				}
				// arrays left partly read (what a std::bitset/std::tuple/early-stopping SerializeArray does with a longer array)
				if (n.kind == K::Arr && !n.items.empty() && s.chance(sim::L_PROG, 1, 3)) n.readCount = static_cast<int32_t>(s.draw(sim::L_PROG, static_cast<uint32_t>(n.items.size())));
			});
		}
	}
	Outcome out;
	out.cfgKey = arch + (sc.zoo ? "|zoo|" : "|dyn|") + FaultName(kind) + (sc.stream ? "|stream" : "|mem");
	const std::string baseTags = "archive=" + arch + " family=" + (sc.zoo ? "zoo" : "dyn") + " fault=" + FaultName(kind) + " entry=" + (sc.stream ? (sc.in.seekable ? "stream:file" : "stream:pipe") : "mem");
	ctx.note(baseTags + " options: " + OptStr(sc.o) + " in=" + sc.in.str() + " out=" + sc.outCfg.str() + (sc.duringUnwind ? " called-during-stack-unwinding" : ""));
	if (sc.duringUnwind) { ctx.count("called_during_unwinding"); sim::probe("operation-called-during-stack-unwinding"); }
	if (ctx.describe && !sc.zoo) ctx.note("document: " + Pretty(sc.doc));

	sim::stream_call_budget(UINT64_MAX);
	// fault-free save: the intact document, K allocations
	SubResult base = DoSave(sc, nullptr, {}, 0, &sc.bytes);
	if (!base.r.isStd) return Violation("WRONG_EXCEPTION", baseTags + " phase=baseline_save", "non-std exception");
	if (!base.r.ok) { ctx.count("save_failed"); return out; }
	if (base.leakBlocks != 0)
	{
		SubResult again = DoSave(sc, nullptr, {}, 0);
		if (again.leakBlocks != 0) return Violation("LEAK", baseTags + " phase=baseline_save", "fault-free save leaves " + std::to_string(again.leakBlocks) + " blocks / " + std::to_string(again.leakBytes) + " bytes allocated");
	}
	if (ctx.describe) ctx.note("bytes(" + std::to_string(sc.bytes.size()) + "): " + sim::hex(sc.bytes, 200));
	const size_t N = sc.bytes.size();
	if (N > 6000) { ctx.count("document_too_large_for_sweep"); return out; }
	uint64_t positions = 0;

	auto leakCheck = [&](SubResult& r, const std::function<SubResult()>& rerun, const std::string& tags, const std::string& at) -> Outcome
	{
		if (r.leakBlocks == 0) return Outcome();
		SubResult again = rerun();   // first-use statics are not leaks: a leak must repeat
		if (again.leakBlocks == 0) return Outcome();
		return Violation("LEAK", tags, at + ": " + std::to_string(again.leakBlocks) + " blocks / " + std::to_string(again.leakBytes) + " bytes still allocated after the exception was handled and every object destroyed (" + r.r.cat + ")");
	};

	// combined faults: while the library is reporting an error it detected itself, the k-th allocation fails as well (the handlers
	// and destructors that defer or rebuild the error run under memory pressure); at most 3 error sites per run get the full sweep
	const bool combine = kind >= F_LIB_CSV_WIDTH && s.chance(sim::L_FAULT, 1, 2);
	uint32_t combined = 0;
	auto allocUnderError = [&](const SubResult& first, const std::function<SubResult(uint64_t)>& run, const std::string& tags, const std::string& at) -> Outcome
	{
		if (!combine || first.r.ok || combined >= 3) return Outcome();
		++combined;
		sim::probe("alloc-fault-while-reporting-error");
		for (uint64_t k = 1; k <= first.allocs && k <= 600; ++k)
		{
			++positions;
			SubResult r = run(k);
			const std::string at2 = at + " and allocation #" + std::to_string(k) + " of " + std::to_string(first.allocs) + " fails";
			if (!AllowedException(r.r)) return Violation("WRONG_EXCEPTION", tags + " combined=alloc", at2 + ": non-std exception");
			if (r.r.ok) return Violation("SILENT_FAILURE", tags + " combined=alloc what=error_lost", at2 + ": the operation returned normally although the error is still there");
			if (r.r.cat != "bad_alloc" && r.r.cat.compare(0, 4, "ser:") != 0)
				return Violation("WRONG_EXCEPTION", tags + " combined=alloc what=type got=" + r.r.cat, at2 + ": expected std::bad_alloc or a SerializationException, got " + r.r.cat + " (" + r.r.what + ")");
			Outcome lk = leakCheck(r, [&] { return run(k); }, tags + " combined=alloc", at2);
			if (lk.violation) return lk;
		}
		return Outcome();
	};

	switch (kind)
	{
	case F_EOF:
	{
		SubResult whole = DoLoad(sc, sc.bytes, {}, false, 0);
		if (!whole.r.ok && !(sc.stream && !sc.in.seekable)) { ctx.count("baseline_load_failed"); return out; }
		for (size_t n = 0; n < N; ++n)
		{
			++positions;
			sim::InFaults f;
			f.eofAt = n;
			SubResult r = DoLoad(sc, sc.bytes, f, false, 0);
			const std::string tags = baseTags + " phase=load";
			const std::string at = "input ends at byte " + std::to_string(n) + " of " + std::to_string(N);
			if (!AllowedException(r.r)) return Violation("WRONG_EXCEPTION", tags, at + ": non-std exception");
			if (sc.archive == A_MSGPACK && r.r.ok)
				return Violation("SILENT_FAILURE", tags + " what=prefix_accepted", at + ": MessagePack is prefix-free, a strict prefix of the document must be rejected, but the load succeeded");
			if (sc.archive != A_MSGPACK && sc.stream)
			{
				// a prefix of a text document can be a valid document: the only demand is stream == memory for the same prefix
				SubResult m = DoLoad(sc, sc.bytes, f, false, 0, true);
				const bool relaxed = !sc.in.seekable && !r.r.ok;
				const bool encodedText = sc.o.streamOptions.encoding != BitSerializer::Convert::Utf::UtfType::Utf8 || sc.o.streamOptions.writeBom;
				if (!encodedText && !relaxed && (m.r.ok != r.r.ok || (!m.r.ok && m.r.cat != r.r.cat)))
					return Violation("DIVERGENCE", tags + " what=prefix_outcome", at + ": memory=" + m.r.cat + " stream=" + r.r.cat + " (" + r.r.what + ")");
			}
			Outcome lk = leakCheck(r, [&] { return DoLoad(sc, sc.bytes, f, false, 0); }, tags, at);
			if (lk.violation) return lk;
			if (!r.r.ok) out.nontrivial = true;
		}
		ctx.count("fault.eof", N);
		break;
	}
	case F_ALLOC_LOAD:
	{
		if (!sc.zoo && s.chance(sim::L_PROG, 1, 2))
		{
			// the reading program expects Required() members the document does not have: the validators' messages, the paths and
			// the ValidationException are built while allocations fail
			sc.plan = sc.doc;
			uint32_t idx = 0;
			ForEachNode(sc.plan, [&](DynNode& n)
			{
				if (n.kind != K::Obj || !s.chance(sim::L_PROG, 1, 2)) return;
				Key k;
				k.s = "reqAbsent" + std::to_string(idx++);
				n.keys.push_back(k);
				DynNode r(K::I32);
				r.required = true;
				n.items.push_back(r);
				if (n.useProgram) { ReqOp op; op.type = ReqOp::Get; op.member = static_cast<uint32_t>(n.items.size() - 1); n.program.push_back(op); }
			});
			sc.hasPlan = idx > 0;
			if (sc.hasPlan) { ctx.count("alloc_load_with_failing_validators"); sim::probe("alloc-fault-with-failing-validators"); }
		}
		SubResult whole = DoLoad(sc, sc.bytes, {}, false, 0);
		const uint64_t K = whole.allocs;
		for (uint64_t k = 1; k <= K && k <= 4000; ++k)
		{
			++positions;
			SubResult r = DoLoad(sc, sc.bytes, {}, false, k);
			const std::string tags = baseTags + " phase=load";
			const std::string at = "allocation #" + std::to_string(k) + " of " + std::to_string(K) + " fails";
			if (!AllowedException(r.r)) return Violation("WRONG_EXCEPTION", tags, at + ": non-std exception");
			if (r.faultFired && !r.r.ok && r.r.cat != "bad_alloc" && r.r.cat.compare(0, 4, "ser:") != 0)
				return Violation("WRONG_EXCEPTION", tags + " what=type got=" + r.r.cat, at + ": expected std::bad_alloc or a SerializationException, got " + r.r.cat + " (" + r.r.what + ")");
			// (an allocation that fails inside the stream buffer is turned into badbit by the iostream layer: that is a report, too)
			if (r.faultFired && r.r.ok && !r.streamFailed) return Violation("SILENT_FAILURE", tags + " what=alloc_failure_swallowed", at + ", but LoadObject returned normally and the stream is good: the failure never reached the caller");
			Outcome lk = leakCheck(r, [&] { return DoLoad(sc, sc.bytes, {}, false, k); }, tags, at);
			if (lk.violation) return lk;
			if (r.faultFired) out.nontrivial = true;
		}
		ctx.count("fault.alloc_fail", K);
		break;
	}
	case F_FAIL_LOAD:
	case F_THROW_LOAD:
	{
		const bool thr = kind == F_THROW_LOAD;
		for (size_t n = 0; n <= N; ++n)
		{
			++positions;
			sim::InFaults f;
			f.failAt = n;
			SubResult r = DoLoad(sc, sc.bytes, f, thr, 0);
			const std::string tags = baseTags + " phase=load";
			const std::string at = std::string("device error at byte ") + std::to_string(n) + " of " + std::to_string(N) + (thr ? " (stream throws)" : " (badbit)");
			if (!AllowedException(r.r)) return Violation("WRONG_EXCEPTION", tags, at + ": non-std exception");
			if (thr && r.faultFired && !r.r.ok && r.r.cat != "ios_failure" && r.r.cat.compare(0, 4, "ser:") != 0)
				return Violation("WRONG_EXCEPTION", tags + " what=type got=" + r.r.cat, at + ": expected std::ios_base::failure or a SerializationException, got " + r.r.cat);
			if (sc.archive == A_MSGPACK && n < N && r.r.ok)
				return Violation("SILENT_FAILURE", tags + " what=prefix_accepted", at + ": the document was cut by a device error but the load succeeded");
			if (r.faultFired && r.r.ok && !r.streamFailed)
				return Violation("SILENT_FAILURE", tags + " what=unobservable", at + ": the load returned normally and the stream does not report the failure");
			Outcome lk = leakCheck(r, [&] { return DoLoad(sc, sc.bytes, f, thr, 0); }, tags, at);
			if (lk.violation) return lk;
			if (r.faultFired) out.nontrivial = true;
		}
		ctx.count(thr ? "fault.throw_load" : "fault.fail_load", N + 1);
		break;
	}
	case F_ALLOC_SAVE:
	{
		const uint64_t K = base.allocs;
		for (uint64_t k = 1; k <= K && k <= 4000; ++k)
		{
			++positions;
			SubResult r = DoSave(sc, nullptr, {}, k);
			const std::string tags = baseTags + " phase=save";
			const std::string at = "allocation #" + std::to_string(k) + " of " + std::to_string(K) + " fails";
			if (!AllowedException(r.r)) return Violation("WRONG_EXCEPTION", tags, at + ": non-std exception");
			if (r.faultFired && !r.r.ok && r.r.cat != "bad_alloc" && r.r.cat.compare(0, 4, "ser:") != 0)
				return Violation("WRONG_EXCEPTION", tags + " what=type got=" + r.r.cat, at + ": expected std::bad_alloc or a SerializationException, got " + r.r.cat + " (" + r.r.what + ")");
			if (r.faultFired && r.r.ok && !r.streamFailed) return Violation("SILENT_FAILURE", tags + " what=alloc_failure_swallowed", at + ", but SaveObject returned normally and the stream is good: the failure never reached the caller");
			Outcome lk = leakCheck(r, [&] { return DoSave(sc, nullptr, {}, k); }, tags, at);
			if (lk.violation) return lk;
			if (r.faultFired) out.nontrivial = true;
		}
		ctx.count("fault.alloc_fail", K);
		break;
	}
	case F_FAIL_SAVE:
	case F_THROW_SAVE:
	{
		const bool thr = kind == F_THROW_SAVE;
		for (size_t n = 0; n <= N; ++n)
		{
			++positions;
			sim::OutFaults f;
			f.failAt = n;
			f.throwing = thr;
			SubResult r = DoSave(sc, nullptr, f, 0);
			const std::string tags = baseTags + " phase=save";
			const std::string at = std::string("device full/failing at byte ") + std::to_string(n) + " of " + std::to_string(N) + (thr ? " (stream throws)" : " (badbit)");
			if (!AllowedException(r.r)) return Violation("WRONG_EXCEPTION", tags, at + ": non-std exception");
			if (thr && r.faultFired && !r.r.ok && r.r.cat != "ios_failure" && r.r.cat.compare(0, 4, "ser:") != 0)
				return Violation("WRONG_EXCEPTION", tags + " what=type got=" + r.r.cat, at + ": expected std::ios_base::failure or a SerializationException, got " + r.r.cat);
			if (r.faultFired && r.r.ok && !r.streamFailed)
				return Violation("SILENT_FAILURE", tags + " what=unobservable", at + ": SaveObject returned normally, the file is short and the stream does not report the failure");
			Outcome lk = leakCheck(r, [&] { return DoSave(sc, nullptr, f, 0); }, tags, at);
			if (lk.violation) return lk;
			if (r.faultFired) out.nontrivial = true;
		}
		ctx.count(thr ? "fault.throw_save" : "fault.fail_save", N + 1);
		break;
	}
	case F_LIB_CSV_WIDTH:
	{
		// row r gets one member more or less than the others: the writer detects it while finishing the row
		for (size_t r0 = 0; r0 < sc.doc.items.size(); ++r0)
		{
			for (int delta = 0; delta < 2; ++delta)
			{
				DynNode alt = sc.doc;
				DynNode& row = alt.items[r0];
				if (delta == 0) { if (row.items.size() < 2) continue; row.items.pop_back(); row.keys.pop_back(); }
				else { Key k; k.s = "extra"; row.keys.push_back(k); row.items.emplace_back(K::I32); }
				++positions;
				SubResult r = DoSave(sc, &alt, {}, 0);
				const std::string tags = baseTags + " phase=save";
				const std::string at = "row " + std::to_string(r0) + (delta ? " has one value more" : " has one value less");
				if (!AllowedException(r.r)) return Violation("WRONG_EXCEPTION", tags, at + ": non-std exception");
				if (sc.doc.items.size() > 1 && r.r.ok) return Violation("SILENT_FAILURE", tags + " what=width_accepted", at + " but SaveObject returned normally");
				Outcome lk = leakCheck(r, [&] { return DoSave(sc, &alt, {}, 0); }, tags, at);
				if (lk.violation) return lk;
				if (!r.r.ok) out.nontrivial = true;
				Outcome cb = allocUnderError(r, [&](uint64_t k) { return DoSave(sc, &alt, {}, k); }, tags, at);
				if (cb.violation) return cb;
			}
		}
		ctx.count("fault.lib_csv_width", positions);
		break;
	}
	case F_LIB_MISMATCH:
	{
		// a mismatched value at every field in turn, with the ThrowError policies
		sc.o.mismatchedTypesPolicy = BitSerializer::MismatchedTypesPolicy::ThrowError;
		sc.o.overflowNumberPolicy = BitSerializer::OverflowNumberPolicy::ThrowError;
		std::vector<std::vector<size_t>> paths;
		{
			std::function<void(const DynNode&, std::vector<size_t>&)> walk = [&](const DynNode& n, std::vector<size_t>& cur)
			{
				for (size_t i = 0; i < n.items.size(); ++i) { cur.push_back(i); paths.push_back(cur); walk(n.items[i], cur); cur.pop_back(); }
			};
			std::vector<size_t> cur;
			walk(sc.doc, cur);
		}
		for (auto& p : paths)
		{
			if (sc.archive == A_CSV && p.size() != 2) continue;
			DynNode alt = sc.doc;
			DynNode* t = &alt;
			for (auto i : p) t = &t->items[i];
			const K orig = t->kind;
			if (IsString(orig) && sc.archive == A_CSV) continue;
			DynNode repl(IsString(orig) || orig == K::Arr || orig == K::Obj || orig == K::Bin ? K::I32 : K::Str);
			repl.s = "x!";
			repl.i32 = 7;
			if ((sc.archive == A_XML || sc.archive == A_CSV) && IsString(orig)) continue;   // any text is a valid string there
			*t = repl;
			std::string faulted;
			{
				CallResult sv = SaveDynWith(*sc.ops, alt, faulted, sc.o, OutCfg{});
				if (!sv.ok) continue;
			}
			++positions;
			SubResult r = DoLoad(sc, faulted, {}, false, 0);
			const std::string tags = baseTags + " phase=load";
			std::string at = "mismatched value at path";
			for (auto i : p) at += "/" + std::to_string(i);
			if (!AllowedException(r.r)) return Violation("WRONG_EXCEPTION", tags, at + ": non-std exception");
			Outcome lk = leakCheck(r, [&] { return DoLoad(sc, faulted, {}, false, 0); }, tags, at);
			if (lk.violation) return lk;
			if (!r.r.ok) out.nontrivial = true;
			Outcome cb = allocUnderError(r, [&](uint64_t k) { return DoLoad(sc, faulted, {}, false, k); }, tags, at);
			if (cb.violation) return cb;
		}
		ctx.count("fault.lib_mismatch", positions);
		break;
	}
	case F_LIB_BAD_UTF:
	{
		// text that cannot be encoded, at every string in turn, with the ThrowError policy
		sc.o.utfEncodingErrorPolicy = BitSerializer::Convert::Utf::UtfEncodingErrorPolicy::ThrowError;
		std::vector<DynNode*> strings;
		DynNode alt = sc.doc;
		ForEachNode(alt, [&](DynNode& n) { if (n.kind == K::Str || n.kind == K::Str16) strings.push_back(&n); });
		for (DynNode* sn : strings)
		{
			const DynNode saved = *sn;
			if (sn->kind == K::Str) sn->s = "ab\xff\xfe" "cd"; else { sn->s16 = u"ab"; sn->s16.push_back(static_cast<char16_t>(0xD800)); sn->s16 += u"cd"; }
			++positions;
			SubResult r = DoSave(sc, &alt, {}, 0);
			const std::string tags = baseTags + " phase=save";
			const std::string at = std::string("ill-formed ") + (saved.kind == K::Str ? "UTF-8" : "UTF-16") + " text in string #" + std::to_string(positions);
			if (!AllowedException(r.r)) return Violation("WRONG_EXCEPTION", tags, at + ": non-std exception");
			Outcome lk = leakCheck(r, [&] { return DoSave(sc, &alt, {}, 0); }, tags, at);
			if (lk.violation) return lk;
			if (!r.r.ok) out.nontrivial = true;
			{
				Outcome cb = allocUnderError(r, [&](uint64_t k) { return DoSave(sc, &alt, {}, k); }, tags, at);
				if (cb.violation) return cb;
			}
			*sn = saved;
		}
		ctx.count("fault.lib_bad_utf", positions);
		break;
	}
	case F_LIB_BAD_OPTION:
	{
		// options the archive refuses (a values separator outside its set): every entry point throws, and nothing it had built stays behind
		static const char bad[] = { ':', 'x', '"', '\n', '0' };
		for (char sep : bad)
		{
			SerializationOptions saved = sc.o;
			sc.o.valuesSeparator = sep;
			for (int dir = 0; dir < 2; ++dir)
			{
				++positions;
				SubResult r = dir == 0 ? DoSave(sc, nullptr, {}, 0) : DoLoad(sc, sc.bytes, {}, false, 0);
				const std::string tags = baseTags + (dir == 0 ? " phase=save" : " phase=load");
				const std::string at = std::string("values separator ") + std::to_string(static_cast<int>(sep)) + " is not one the archive accepts";
				if (!AllowedException(r.r)) { sc.o = saved; return Violation("WRONG_EXCEPTION", tags, at + ": non-std exception"); }
				if (r.r.ok) { sc.o = saved; return Violation("SILENT_FAILURE", tags + " what=bad_option_accepted", at + " but the operation returned normally"); }
				Outcome lk = leakCheck(r, [&] { return dir == 0 ? DoSave(sc, nullptr, {}, 0) : DoLoad(sc, sc.bytes, {}, false, 0); }, tags, at);
				if (lk.violation) { sc.o = saved; return lk; }
				out.nontrivial = true;
			}
			sc.o = saved;
		}
		ctx.count("fault.lib_bad_option", positions);
		break;
	}
	case F_HUGE_COUNT:
	{
		// the input ends right behind the header of a container that announces up to 2^32-1 elements, in a place the program does not
		// read (the tail of an array it reads partly): the destructor that skips the tail must report the truncation
		DynNode alt(K::Arr);
		alt.items.push_back(sc.doc);
		DynNode marker(K::U32);
		marker.u32 = 0x12345678u;        // saved as CE 12 34 56 78: the five bytes are replaced below
		alt.items.push_back(marker);
		alt.readCount = 1;
		std::string bytes;
		{
			CallResult sv = SaveDynWith(*sc.ops, alt, bytes, sc.o, OutCfg{});
			if (!sv.ok || bytes.size() < 5 || static_cast<unsigned char>(bytes[bytes.size() - 5]) != 0xCE) { ctx.count("save_failed"); break; }
		}
		Scenario& sc2 = sc;          // the scenario now reads the two-element array (first element only)
		sc2.doc = alt;
		sc2.hasPlan = false;
		static const unsigned char headers[][5] = { { 0xDF, 0x80, 0, 0, 0 }, { 0xDF, 0x80, 0, 0, 1 }, { 0xDF, 0xFF, 0xFF, 0xFF, 0xFF }, { 0xDD, 0x80, 0, 0, 0 }, { 0xDD, 0xFF, 0xFF, 0xFF, 0xFF }, { 0xDE, 0xFF, 0xFF, 0xC0, 0xC0 }, { 0xDB, 0xFF, 0xFF, 0xFF, 0xFF }, { 0xC6, 0x80, 0, 0, 0 } };
		for (const auto& h : headers)
		{
			std::string faulted = bytes;
			memcpy(&faulted[faulted.size() - 5], h, 5);
			++positions;
			SubResult r = DoLoad(sc2, faulted, {}, false, 0);
			const std::string tags = baseTags + " phase=load";
			const std::string at = "the input ends behind the header " + sim::hex(std::string(reinterpret_cast<const char*>(h), 5), 5) + " of an unread element";
			if (!AllowedException(r.r)) return Violation("WRONG_EXCEPTION", tags, at + ": non-std exception");
			if (r.r.ok) return Violation("SILENT_FAILURE", tags + " what=prefix_accepted", at + ", which announces far more data than there is, but the load succeeded");
			Outcome lk = leakCheck(r, [&] { return DoLoad(sc2, faulted, {}, false, 0); }, tags, at);
			if (lk.violation) return lk;
			out.nontrivial = true;
		}
		ctx.count("fault.huge_count", positions);
		break;
	}
	default:
	{
		// size() smaller than the number of elements saved, at every array in turn (binary archive)
		std::vector<DynNode*> arrays;
		DynNode alt = sc.doc;
		ForEachNode(alt, [&](DynNode& n) { if (n.kind == K::Arr && !n.items.empty()) arrays.push_back(&n); });
		for (DynNode* an2 : arrays)
		{
			an2->sizeLie = 1;
			++positions;
			SubResult r = DoSave(sc, &alt, {}, 0);
			const std::string tags = baseTags + " phase=save";
			const std::string at = "array #" + std::to_string(positions) + " reports size()-1";
			if (!AllowedException(r.r)) return Violation("WRONG_EXCEPTION", tags, at + ": non-std exception");
			if (r.r.ok) return Violation("SILENT_FAILURE", tags + " what=size_lie_accepted", at + " but SaveObject returned normally (the document is malformed)");
			Outcome lk = leakCheck(r, [&] { return DoSave(sc, &alt, {}, 0); }, tags, at);
			if (lk.violation) return lk;
			out.nontrivial = true;
			{
				Outcome cb = allocUnderError(r, [&](uint64_t k) { return DoSave(sc, &alt, {}, k); }, tags, at);
				if (cb.violation) return cb;
			}
			an2->sizeLie = 0;
		}
		ctx.count("fault.lib_size_lie", positions);
		break;
	}
	}
	sim::steps_end();
	ctx.count("fault_positions", positions);
	ctx.note("swept " + std::to_string(positions) + " fault positions");
	return out;
}

} // namespace hz
