// C18 — loading into a populated target gives the same result as into a fresh one.
// System: one long-lived target receiving a history of loads, some of them aborted midway by injected faults; the history
// ends with a load that succeeds; final state is compared with the same load into a default-constructed target.
#include "scen_util.h"
#include "zoo_gen.h"

namespace hz {

// OnlyExistKeys leg: the outcome for a key may depend on the prior key set of the target, never on the prior values. Two targets
// with the same keys and different values receive the same history of documents, which may repeat keys (the document is
// written with keys "m<d>a"/"m<d>b" and both are then renamed to "m<d>x" in the bytes: same length, so every format stays
// well-formed); afterwards every key that occurred in the last document that mentioned it must hold the same value in both targets,
// that value must be one the document gives for the key, and no key may have been added or removed.
static Outcome OnlyExistLeg(RunCtx& ctx, int archive)
{
	Source& s = ctx.src;
	ArchiveOps& ops = GetOps(archive);
	const std::string an = ArchiveName(archive);
	SerializationOptions o = GenLoadOptions(s, sim::L_CFG, archive);
	Outcome out;
	out.cfgKey = an + "|onlyexist";
	ctx.count("leg.onlyexist");
	std::map<std::string, int32_t> a, b;
	const uint32_t nKeys = 1 + s.draw(sim::L_PROG, 6);
	for (uint32_t i = 0; i < nKeys; ++i) { const std::string k = "m" + std::to_string(s.draw(sim::L_PROG, 8)) + "x"; a[k] = 1000 + static_cast<int32_t>(i); b[k] = 2000 + static_cast<int32_t>(i); }
	size_t memberBit = 0;
	while (std::string(kZooOrder[memberBit]) != "mapOnlyExist") ++memberBit;
	const auto a0 = a;
	const auto b0 = b;
	std::map<std::string, std::vector<int32_t>> lastDocValues;   // key -> the values the last document that has the key gives for it
	const uint32_t nDocs = 1 + s.draw(sim::L_PROG, 3);
	std::string plan;
	for (uint32_t d = 0; d < nDocs; ++d)
	{
		Zoo docZ;
		docZ.skipIntKeyMaps = archive == A_XML;
		docZ.saveMask = 1ull << memberBit;
		const uint32_t n = s.draw(sim::L_DOC, 10);
		for (uint32_t i = 0; i < n; ++i)
		{
			const std::string k = "m" + std::to_string(s.draw(sim::L_DOC, 8)) + (s.chance(sim::L_DOC, 1, 2) ? "a" : "b");
			docZ.mapOnlyExist[k] = static_cast<int32_t>(d * 100 + i + 1);
		}
		std::map<std::string, std::vector<int32_t>> thisDoc;
		for (auto& kv : docZ.mapOnlyExist)
		{
			const std::string k = kv.first.substr(0, 2) + "x";
			thisDoc[k].push_back(kv.second);
			plan += k + "=" + std::to_string(kv.second) + " ";
		}
		plan += "| ";
		for (auto& kv : thisDoc) lastDocValues[kv.first] = kv.second;
		std::string bytes;
		CallResult sv = SaveZooWith(ops, docZ, bytes, o, OutCfg{});
		if (!sv.ok) return out;
		for (size_t i = 0; i + 2 < bytes.size(); ++i)
		{
			if (bytes[i] == 'm' && bytes[i + 1] >= '0' && bytes[i + 1] <= '9' && (bytes[i + 2] == 'a' || bytes[i + 2] == 'b')) bytes[i + 2] = 'x';
		}
		for (int which = 0; which < 2; ++which)
		{
			Zoo target;
			target.skipIntKeyMaps = archive == A_XML;
			target.useLoadModes = true;
			target.mapOnlyExist = which ? b : a;
			InCfg c;
			if (s.chance(sim::L_IO, 1, 2)) { c = DrawStreamCfg(s, sim::L_IO); c.seekable = true; }
			sim::steps_begin(3000ull * (bytes.size() + 8192) * 16);
			const CallResult r = LoadZooWith(ops, target, bytes, o, c);
			sim::steps_end();
			if (!r.isStd) return Violation("WRONG_EXCEPTION", "archive=" + an + " leg=onlyexist", "non-std exception");
			if (!r.ok) return Violation("WRONG_EXCEPTION", "archive=" + an + " leg=onlyexist what=load_failed exc=" + r.cat, "loading a document with repeated keys failed: " + r.cat + " (" + r.what + ")");
			(which ? b : a) = target.mapOnlyExist;
		}
	}
	ctx.note("only-exist-keys leg: archive=" + an + " keys=" + std::to_string(a0.size()) + " documents: " + plan);
	const std::string tags = "archive=" + an + " leg=onlyexist";
	if (a.size() != a0.size() || b.size() != b0.size()) return Violation("WRONG_VALUE", tags + " what=key_set", "OnlyExistKeys changed the key set of the target");
	for (auto& kv : a0)
	{
		const std::string& k = kv.first;
		if (!a.count(k) || !b.count(k)) return Violation("WRONG_VALUE", tags + " what=key_set", "OnlyExistKeys removed key " + k);
		auto it = lastDocValues.find(k);
		if (it == lastDocValues.end())
		{
			if (a[k] != a0.at(k) || b[k] != b0.at(k)) return Violation("WRONG_VALUE", tags + " what=untouched_changed", "key " + k + " is in no document but its value changed");
			continue;
		}
		if (a[k] != b[k]) return Violation("WRONG_VALUE", tags + " what=depends_on_prior_value", "key " + k + " ends as " + std::to_string(a[k]) + " in one target and " + std::to_string(b[k]) + " in the other: the result depends on the prior value (documents: " + plan + ")");
		if (std::find(it->second.begin(), it->second.end(), a[k]) == it->second.end()) return Violation("WRONG_VALUE", tags + " what=not_from_document", "key " + k + " ends as " + std::to_string(a[k]) + ", which the last document that has the key does not give for it (documents: " + plan + ")");
	}
	out.nontrivial = true;
	sim::probe("onlyexist-repeated-keys");
	return out;
}

Outcome RunC18(RunCtx& ctx)
{
	Source& s = ctx.src;
	const int archive = static_cast<int>(s.draw(sim::L_CFG, A_COUNT));
	if (archive != A_CSV && s.chance(sim::L_CFG, 1, 16)) return OnlyExistLeg(ctx, archive);
	ArchiveOps& ops = GetOps(archive);
	const std::string an = ArchiveName(archive);
	SerializationOptions o = GenLoadOptions(s, sim::L_CFG, archive);
	// 1 history in 3 runs with the Skip policies, and only there documents may hold values the target type cannot take
	const bool skipPolicies = s.chance(sim::L_CFG, 1, 3);
	o.mismatchedTypesPolicy = skipPolicies ? BitSerializer::MismatchedTypesPolicy::Skip : BitSerializer::MismatchedTypesPolicy::ThrowError;
	o.overflowNumberPolicy = skipPolicies ? BitSerializer::OverflowNumberPolicy::Skip : BitSerializer::OverflowNumberPolicy::ThrowError;
	const uint32_t nLoads = 2 + s.draw(sim::L_PROG, 5);
	const bool withAborts = s.chance(sim::L_FAULT, 1, 2);
	const bool loadModes = !withAborts && archive != A_CSV && s.chance(sim::L_CFG, 1, 2);
	const bool csv = archive == A_CSV;
	ZooGenCfg zg;
	zg.archive = archive;
	zg.maxLen = 10;
	zg.csvRoot = csv ? static_cast<int>(s.draw(sim::L_CFG, 4)) : 0;   // vector, list, deque, forward_list of rows
	// text formats treat an empty string as null, and null leaves a field unchanged (documented rule): string *fields* are non-empty there
	zg.nonEmptyStrings = archive == A_XML || archive == A_CSV;
	// KF-XML-NULL-VS-EMPTY: XML cannot tell an empty container from null, so an empty container in the document leaves a populated target unchanged
	zg.allowEmpty = archive != A_XML || s.chance(sim::L_CFG, 1, 64);
	// 1 history in 8 moves one sequence member between small sizes and sizes around the estimate cap (1023..2049 elements)
	zg.jumboMember = DrawJumbo(s, sim::L_CFG, 8);
	zg.jumboOneIn = 2;
	zg.altDocOneIn = 5;
	zg.altChronoOneIn = skipPolicies ? 3 : 0;   // documents with null elements in sets (written by a class version that held vectors of optionals)
	if (zg.jumboMember >= 0 && !csv) { ctx.count(std::string("jumbo.") + JumboName(zg.jumboMember)); sim::probe("history-with-container-above-estimate-cap"); }
	Outcome out;
	out.cfgKey = an + (withAborts ? "|aborts" : "|clean") + (loadModes ? "|modes" : "") + "|" + std::to_string(nLoads);
	ctx.note("archive=" + an + " history of " + std::to_string(nLoads) + " loads" + (withAborts ? " with aborts" : "") + (loadModes ? " with MapLoadMode::OnlyExistKeys/UpdateKeys" : "") + " options: " + OptStr(o));
	ctx.count("archive." + an);

	// documents of the history: saved states of the same type, sizes 0..k on both sides
	std::vector<std::string> docs(nLoads);
	std::vector<std::map<std::string, int32_t>> docOnlyExist(nLoads), docUpdate(nLoads);
	std::vector<std::map<std::string, std::optional<int32_t>>> docUpdateOpt(nLoads);
	for (uint32_t i = 0; i < nLoads; ++i)
	{
		Zoo z;
		zg.maxLen = s.chance(sim::L_DOC, 1, 4) ? 40 : 6;
		GenZoo(s, sim::L_DOC, z, zg);
		if (csv) EnsureCsvRow(z);     // KF-CSV-EMPTY-TABLE (owned by C01)
		docOnlyExist[i] = z.mapOnlyExist;
		docUpdate[i] = z.mapUpdate;
		docUpdateOpt[i] = z.mapUpdateOpt;
		CallResult sv = SaveZooWith(ops, z, docs[i], o, OutCfg{});
		if (!sv.isStd) return Violation("WRONG_EXCEPTION", "archive=" + an + " dir=save", "non-std exception");
		if (!sv.ok) { ctx.count("save_failed"); return out; }
		if (ctx.describe)
		{
			auto f = ZooFields(z, csv);
			ctx.note("document " + std::to_string(i) + " (" + std::to_string(docs[i].size()) + " bytes): vec=" + f["vec"].substr(0, 60) + " set=" + f["set"].substr(0, 40) + " map=" + f["map"].substr(0, 60) + " rows=" + std::to_string(z.rows.size()));
		}
	}
	if (archive != A_MSGPACK) for (auto& d : docs) if (d.size() >= 3 && d.compare(0, 3, "\xEF\xBB\xBF") == 0) return out;

	// every choice of the history is drawn before the ledger is armed (the choice lanes allocate while they record)
	struct LoadPlan { InCfg c; sim::InFaults faults; bool throwMode = false; uint64_t failAlloc = 0; std::string faultName = "none"; };
	std::vector<LoadPlan> plans(nLoads);
	for (uint32_t i = 0; i < nLoads; ++i)
	{
		LoadPlan& lp = plans[i];
		const bool last = i + 1 == nLoads;
		if (s.chance(sim::L_IO, 1, 2)) lp.c = DrawStreamCfg(s, sim::L_IO);
		if (last || loadModes) lp.c.seekable = true;   // the final load must succeed: a pipe cannot serve the backward seeks map loading needs
		if (withAborts && !last && s.chance(sim::L_FAULT, 2, 3))
		{
			const uint32_t fk = s.draw(sim::L_FAULT, 4);
			const size_t n = s.draw(sim::L_FAULT, static_cast<uint32_t>(docs[i].size() + 1));
			if (fk == 0) { lp.faults.eofAt = n; lp.faultName = "eof@" + std::to_string(n); }
			else if (fk == 1) { lp.failAlloc = 1 + s.draw(sim::L_FAULT, 60); lp.faultName = "alloc_fail#" + std::to_string(lp.failAlloc); }
			else if (fk == 2) { if (!lp.c.stream) lp.c = DrawStreamCfg(s, sim::L_IO); lp.faults.failAt = n; lp.faultName = "fail@" + std::to_string(n); }
			else { if (!lp.c.stream) lp.c = DrawStreamCfg(s, sim::L_IO); lp.faults.failAt = n; lp.throwMode = true; lp.faultName = "throw@" + std::to_string(n); }
		}
	}

	const int aliasAfter = s.chance(sim::L_PROG, 1, 4) ? static_cast<int>(s.draw(sim::L_PROG, nLoads)) : -1;
	std::map<std::string, std::string> finalFields;
	std::map<std::string, int32_t> refOnlyExist, refUpdate;
	std::map<std::string, std::optional<int32_t>> refUpdateOpt;
	std::string failure, failureTags;
	int64_t leakBlocks = 0;
	auto history = [&](bool describe)
	{
		sim::alloc_arm(0);
		{
			Zoo target;
			target.skipIntKeyMaps = archive == A_XML;
			target.useLoadModes = loadModes;
			target.csvRoot = zg.csvRoot;
			for (uint32_t i = 0; i < nLoads && failure.empty(); ++i)
			{
				const bool last = i + 1 == nLoads;
				const LoadPlan& lp = plans[i];
				const InCfg& c = lp.c;
				const sim::InFaults faults = lp.faults;
				const bool throwMode = lp.throwMode;
				const std::string& faultName = lp.faultName;
				t_failAllocNext = lp.failAlloc;
				sim::steps_begin(3000ull * (docs[i].size() + 8192));
				sim::alloc().armed = true;
				CallResult r = LoadZooWith(ops, target, docs[i], o, c, faults, throwMode);
				sim::steps_end();
				t_failAllocNext = 0;
				if (describe) { sim::alloc().armed = false; ctx.note("load " + std::to_string(i) + " via " + c.str() + " fault=" + faultName + " -> " + r.cat + " " + r.what); sim::alloc().armed = true; }
				if (!r.isStd) { failure = "non-std exception in load " + std::to_string(i); failureTags = "what=nonstd"; break; }
				if (!r.ok) { sim::alloc().armed = false; ctx.count("fault.aborted_load"); ctx.count("fault." + faultName.substr(0, faultName.find_first_of("@#"))); sim::alloc().armed = true; }
				if (last && !r.ok && !(c.stream && !c.seekable))
				{
					failure = "the final (unfaulted) load into the populated target failed: " + r.cat + " (" + r.what + ")";
					failureTags = "what=final_failed exc=" + r.cat;
					break;
				}
				if (loadModes && r.ok)
				{
					sim::alloc().armed = false;
					for (auto& kv : docOnlyExist[i]) { auto it = refOnlyExist.find(kv.first); if (it != refOnlyExist.end()) it->second = kv.second; }
					for (auto& kv : docUpdate[i]) refUpdate[kv.first] = kv.second;
					for (auto& kv : docUpdateOpt[i]) refUpdateOpt[kv.first] = kv.second;   // a null value resets the optional, the key stays
					// the first load defines the populated state for OnlyExistKeys (nothing can be added to an empty map)
					sim::alloc().armed = true;
				}
				// the program that owns the object may make several slots of a container share one pointee (a placeholder)
				if (aliasAfter == static_cast<int>(i) && !last && target.vsObj.size() >= 2)
				{
					auto shared = std::make_shared<Inner>();
					shared->a = 4242;
					shared->b = "shared-placeholder";
					for (auto& p : target.vsObj) p = shared;
				}
				if (loadModes && i == 0 && r.ok)
				{
					// give the only-existing-keys map some keys to work with: assigned directly, like a program populating its object
					target.mapOnlyExist = docOnlyExist[0];
					sim::alloc().armed = false;
					refOnlyExist = docOnlyExist[0];
					sim::alloc().armed = true;
				}
			}
			sim::alloc().armed = false;
			if (failure.empty()) finalFields = ZooFields(target, csv);
			sim::alloc().armed = true;
		}
		leakBlocks = sim::alloc().live;
		sim::alloc_disarm();
	};
	history(ctx.describe);
	const std::string tags = "archive=" + an + (withAborts ? " aborts=1" : " aborts=0") + (loadModes ? " modes=1" : " modes=0");
	if (!failure.empty()) return Violation(failureTags == "what=nonstd" ? "WRONG_EXCEPTION" : "WRONG_EXCEPTION", tags + " " + failureTags, failure);
	if (finalFields.empty()) return out;   // last load on a pipe could not be served
	if (leakBlocks != 0)
	{
		const int64_t first = leakBlocks;
		finalFields.clear(); refOnlyExist.clear(); refUpdate.clear(); refUpdateOpt.clear();
		history(false);
		if (leakBlocks != 0) return Violation("LEAK", tags + " what=ledger", std::to_string(first) + " blocks still allocated after the history and the destruction of the target (" + std::to_string(leakBlocks) + " on re-run)");
	}

	// reference: the last document loaded into a default-constructed target
	Zoo fresh;
	fresh.skipIntKeyMaps = archive == A_XML;
	fresh.useLoadModes = false;
	fresh.csvRoot = zg.csvRoot;
	CallResult rf = LoadZooWith(ops, fresh, docs[nLoads - 1], o, InCfg{});
	if (!rf.ok) { ctx.count("fresh_load_failed"); return out; }
	auto expected = ZooFields(fresh, csv);
	if (loadModes)
	{
		auto mapRepr = [](const std::map<std::string, int32_t>& m) { std::string r = "{"; for (auto& kv : m) r += HexStr(kv.first) + ":" + std::to_string(kv.second) + ","; return r + "}"; };
		expected["mapOnlyExist"] = mapRepr(refOnlyExist);
		expected["mapUpdate"] = mapRepr(refUpdate);
		{ std::string r = "{"; for (auto& kv : refUpdateOpt) r += HexStr(kv.first) + ":" + (kv.second ? std::to_string(*kv.second) : std::string("null")) + ","; expected["mapUpdateOpt"] = r + "}"; }
	}
	const std::string diff = ZooDiff(expected, finalFields);
	if (!diff.empty())
	{
		const std::string member = diff.substr(0, diff.find(':'));
		const std::string& ev = expected[member];
		const bool expectedEmpty = ev.empty() || ev == "[]" || ev == "{}";
		return Violation("WRONG_VALUE", tags + " what=stale_or_lost member=" + member + (expectedEmpty ? " expected_empty=1" : " expected_empty=0"), "after the history the populated target differs from a fresh target loaded with the last document: " + diff);
	}
	out.nontrivial = true;
	sim::probe(withAborts ? "history-with-aborts" : "history-clean");
	if (loadModes) sim::probe("map-load-modes");
	return out;
}

} // namespace hz
