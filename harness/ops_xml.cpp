#include "bitserializer/pugixml_archive.h"
#include "ops_impl.h"

namespace vm {
ArchiveOps& XmlOps()
{
	static OpsImpl<BitSerializer::Xml::PugiXml::XmlArchive, false, true> ops;
	return ops;
}
}
