// Included by ops_<archive>.cpp after the archive header.
#pragma once
#include <stdexcept>
#include "ops.h"

namespace vm {

template <class TArchive, bool RootScalars, bool TreeZoo>
class OpsImpl final : public ArchiveOps
{
	template <class F>
	static void Root(DynNode& r, F&& f)
	{
		if constexpr (RootScalars)
		{
			switch (r.kind)
			{
			case K::Null: { std::nullptr_t np = nullptr; f(np); return; }
			case K::Bool: f(r.b); return;
			case K::I8: f(r.i8); return;
			case K::U8: f(r.u8); return;
			case K::I16: f(r.i16); return;
			case K::U16: f(r.u16); return;
			case K::I32: f(r.i32); return;
			case K::U32: f(r.u32); return;
			case K::I64: f(r.i64); return;
			case K::U64: f(r.u64); return;
			case K::F32: f(r.f32); return;
			case K::F64: f(r.f64); return;
			case K::Str: f(r.s); return;
			case K::Str16: f(r.s16); return;
			case K::Str32: f(r.s32); return;
			case K::WStr: f(r.ws); return;
			case K::Bin: f(r.bin); return;
			case K::Ts: f(r.tp); return;
			default: break;
			}
		}
		if (r.kind == K::Arr) { ArrView v{ &r }; f(v); return; }
		if constexpr (TArchive::archive_type != BitSerializer::ArchiveType::Csv)
		{
			if (r.kind == K::Obj) { f(r); return; }
		}
		throw std::logic_error("harness: unsupported root kind for this archive");
	}

public:
	void SaveDyn(DynNode& root, const BitSerializer::SerializationOptions& o, IoOut out) override
	{
		Root(root, [&](auto& v)
		{
			if (&o == &kLibraryDefaults) { if (out.mem) BitSerializer::SaveObject<TArchive>(v, *out.mem); else BitSerializer::SaveObject<TArchive>(v, *out.stream); }
			else if (out.mem) BitSerializer::SaveObject<TArchive>(v, *out.mem, o);
			else BitSerializer::SaveObject<TArchive>(v, *out.stream, o);
		});
	}
	void LoadDyn(DynNode& root, const BitSerializer::SerializationOptions& o, IoIn in) override
	{
		Root(root, [&](auto& v)
		{
			if (&o == &kLibraryDefaults) { if (in.mem) BitSerializer::LoadObject<TArchive>(v, *in.mem); else if (in.view) BitSerializer::LoadObject<TArchive>(v, *in.view); else BitSerializer::LoadObject<TArchive>(v, *in.stream); }
			else if (in.mem) BitSerializer::LoadObject<TArchive>(v, *in.mem, o);
			else if (in.view) BitSerializer::LoadObject<TArchive>(v, *in.view, o);
			else BitSerializer::LoadObject<TArchive>(v, *in.stream, o);
		});
	}
	void LoadIntVector(std::vector<int32_t>& v, const BitSerializer::SerializationOptions& o, IoIn in) override
	{
		if constexpr (TArchive::archive_type != BitSerializer::ArchiveType::Csv)
		{
			if (in.mem) BitSerializer::LoadObject<TArchive>(v, *in.mem, o);
			else BitSerializer::LoadObject<TArchive>(v, *in.stream, o);
		}
		else throw std::logic_error("harness: CSV cannot hold an array of numbers at the root");
	}
	void SaveDynToFile(DynNode& root, const BitSerializer::SerializationOptions& o, const std::string& path) override
	{
		Root(root, [&](auto& v) { BitSerializer::SaveObjectToFile<TArchive>(v, path, o, true); });
	}
	void LoadDynFromFile(DynNode& root, const BitSerializer::SerializationOptions& o, const std::string& path) override
	{
		Root(root, [&](auto& v) { BitSerializer::LoadObjectFromFile<TArchive>(v, path, o); });
	}
	void LoadShapes(Shapes& sh, const BitSerializer::SerializationOptions& o, IoIn in) override
	{
		if constexpr (TArchive::archive_type != BitSerializer::ArchiveType::Csv)
		{
			if (in.mem) BitSerializer::LoadObject<TArchive>(sh, *in.mem, o);
			else BitSerializer::LoadObject<TArchive>(sh, *in.stream, o);
		}
		else throw std::logic_error("harness: CSV has no arrays inside a row");
	}
	void SaveZoo(Zoo& z, const BitSerializer::SerializationOptions& o, IoOut out) override
	{
		if constexpr (TreeZoo)
		{
			if (out.mem) BitSerializer::SaveObject<TArchive>(z, *out.mem, o);
			else BitSerializer::SaveObject<TArchive>(z, *out.stream, o);
		}
		else
		{
			auto save = [&](auto& rows)
			{
				if (out.mem) BitSerializer::SaveObject<TArchive>(rows, *out.mem, o);
				else BitSerializer::SaveObject<TArchive>(rows, *out.stream, o);
			};
			switch (z.csvRoot) { case 1: save(z.rowsList); break; case 2: save(z.rowsDeque); break; case 3: save(z.rowsFwd); break; default: save(z.rows); }
		}
	}
	void LoadZoo(Zoo& z, const BitSerializer::SerializationOptions& o, IoIn in) override
	{
		if constexpr (TreeZoo)
		{
			if (in.mem) BitSerializer::LoadObject<TArchive>(z, *in.mem, o);
			else if (in.view) BitSerializer::LoadObject<TArchive>(z, *in.view, o);
			else BitSerializer::LoadObject<TArchive>(z, *in.stream, o);
		}
		else
		{
			auto load = [&](auto& rows)
			{
				if (in.mem) BitSerializer::LoadObject<TArchive>(rows, *in.mem, o);
				else if (in.view) BitSerializer::LoadObject<TArchive>(rows, *in.view, o);
				else BitSerializer::LoadObject<TArchive>(rows, *in.stream, o);
			};
			switch (z.csvRoot) { case 1: load(z.rowsList); break; case 2: load(z.rowsDeque); break; case 3: load(z.rowsFwd); break; default: load(z.rows); }
		}
	}
};

} // namespace vm
