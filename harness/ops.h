// Type-erased interface to the four real archives: each ops_<archive>.cpp instantiates the models for one archive.
#pragma once
#include <istream>
#include <ostream>
#include <string>
#include "models.h"
#include "zoo.h"

namespace vm {

enum ArchiveId : int { A_MSGPACK = 0, A_JSON, A_XML, A_CSV, A_COUNT };
inline const char* ArchiveName(int a) { static const char* n[] = { "msgpack", "json", "xml", "csv" }; return n[a]; }

struct IoIn { const std::string* mem = nullptr; std::istream* stream = nullptr; const std::string_view* view = nullptr; };
struct IoOut { std::string* mem = nullptr; std::ostream* stream = nullptr; };

class ArchiveOps
{
public:
	virtual ~ArchiveOps() = default;
	virtual void SaveDyn(DynNode& root, const BitSerializer::SerializationOptions& o, IoOut out) = 0;
	virtual void LoadDyn(DynNode& root, const BitSerializer::SerializationOptions& o, IoIn in) = 0;
	virtual void LoadIntVector(std::vector<int32_t>& v, const BitSerializer::SerializationOptions& o, IoIn in) = 0;
	virtual void SaveZoo(Zoo& z, const BitSerializer::SerializationOptions& o, IoOut out) = 0;
	virtual void LoadZoo(Zoo& z, const BitSerializer::SerializationOptions& o, IoIn in) = 0;
	virtual void SaveDynToFile(DynNode& root, const BitSerializer::SerializationOptions& o, const std::string& path) = 0;
	virtual void LoadDynFromFile(DynNode& root, const BitSerializer::SerializationOptions& o, const std::string& path) = 0;
	virtual void LoadShapes(Shapes& sh, const BitSerializer::SerializationOptions& o, IoIn in) = 0;
};

// passing this object as the options means "call the library without an options argument" (its own DefaultOptions)
extern const BitSerializer::SerializationOptions kLibraryDefaults;

ArchiveOps& GetOps(int archiveId);
ArchiveOps& MsgPackOps();
ArchiveOps& JsonOps();
ArchiveOps& XmlOps();
ArchiveOps& CsvOps();

} // namespace vm
