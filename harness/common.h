// Shared harness layer for all scenarios: run context, outcome, exception taxonomy, I/O configurations, generators.
#pragma once
#include <cmath>
#include <cxxabi.h>
#include <functional>
#include <map>
#include <sstream>
#include <typeinfo>
#include <sys/mman.h>
#include "../sim/sim.h"
#include "ops.h"
#include "common/binary_stream_reader.h"

namespace hz {

using namespace vm;
using sim::Lane;
using sim::Source;
using BitSerializer::SerializationOptions;

// ------------------------------------------------------------------------------------------------
struct Outcome
{
	bool violation = false;
	std::string cls;       // WRONG_VALUE, DIVERGENCE, WRONG_EXCEPTION, SILENT_FAILURE, LEAK, MEMORY, RACE_RESULT, ...
	std::string tags;      // space separated fixed vocabulary: archive=.. entry=.. kind=.. etc.
	std::string detail;    // free text (expected/actual)
	bool nontrivial = false;
	std::string cfgKey;    // configuration tuple (for distinct counting together with the event hash)
};

struct RunCtx
{
	Source src;
	bool describe = false;
	std::string desc;      // human readable plan (only when describe)
	std::map<std::string, uint64_t> counters;   // faults fired / knobs / kinds used in this run

	void note(const std::string& line) { if (describe) { printf("NOTE %s\n", line.c_str()); fflush(stdout); } }
	void count(const std::string& name, uint64_t n = 1) { counters[name] += n; }
};

inline Outcome Violation(const char* cls, std::string tags, std::string detail)
{
	Outcome o;
	o.violation = true;
	o.cls = cls;
	o.tags = std::move(tags);
	o.detail = std::move(detail);
	return o;
}

// ------------------------------------------------------------------------------------------------
// exception taxonomy
// ------------------------------------------------------------------------------------------------
struct CallResult
{
	bool ok = false;
	std::string cat;    // ok | ser:<code> | bad_alloc | ios_failure | std:<type> | nonstd
	std::string what;
	bool isStd = true;
	bool validation = false;   // ValidationException: `what` lists "path=message,...;" in path order
};

inline std::string Demangle(const char* n)
{
	int st = 0;
	char* d = abi::__cxa_demangle(n, nullptr, nullptr, &st);
	std::string r = d ? d : n;
	free(d);
	return r;
}

template <class F>
CallResult Guarded(F&& f)
{
	CallResult r;
	try
	{
		f();
		r.ok = true;
		r.cat = "ok";
	}
	catch (const BitSerializer::ValidationException& e)
	{
		r.cat = "ser:" + BitSerializer::Convert::ToString(e.GetErrorCode());
		for (auto& ch : r.cat) if (ch == ' ') ch = '_';
		// the reported paths and messages are part of the outcome
		r.validation = true;
		for (const auto& kv : e.GetValidationErrors())
		{
			r.what += kv.first + "=";
			for (const auto& m : kv.second) r.what += m + ",";
			r.what += ";";
		}
	}
	catch (const BitSerializer::SerializationException& e)
	{
		r.cat = "ser:" + BitSerializer::Convert::ToString(e.GetErrorCode());
		for (auto& ch : r.cat) if (ch == ' ') ch = '_';
		r.what = e.what();
	}
	catch (const std::bad_alloc& e) { r.cat = "bad_alloc"; r.what = e.what(); }
	catch (const std::ios_base::failure& e) { r.cat = "ios_failure"; r.what = e.what(); }
	catch (const std::exception& e) { r.cat = "std:" + Demangle(typeid(e).name()); r.what = e.what(); }
	catch (...) { r.cat = "nonstd"; r.isStd = false; }
	sim::ev(r.ok ? sim::EV_O_OK : sim::EV_O_EXC, sim::fnv1a(r.cat));
	return r;
}

// ------------------------------------------------------------------------------------------------
// I/O configurations
// ------------------------------------------------------------------------------------------------
struct InCfg
{
	bool stream = false;
	bool seekable = true;
	bool seekBeyondFails = false;
	std::vector<uint32_t> delivery;   // bytes per underflow, cyclic; 0 = everything available
	uint32_t binChunk = 256;
	uint32_t encChunk = 256;
	bool skipFastSeek = false;
	uint32_t prefix = 0;              // the document starts at this offset of the stream (a header or another document precedes it); the stream is positioned there
	uint8_t excMask = 0;              // extra bits the caller enabled with istream::exceptions(): 2 = failbit, 4 = eofbit (badbit comes with throwMode)
	bool readOnlyMem = false;         // memory entry through a std::string_view of a read-only mapping followed by an inaccessible page

	std::string str() const
	{
		std::string s = stream ? (seekable ? "stream:file" : "stream:pipe") : (readOnlyMem ? "mem:readonly-view" : "mem");
		if (stream)
		{
			s += " delivery=[";
			for (auto d : delivery) s += std::to_string(d) + ",";
			s += "] binChunk=" + std::to_string(binChunk) + " encChunk=" + std::to_string(encChunk);
			if (skipFastSeek) s += " skipFastSeek";
			if (prefix) s += " startsAt=" + std::to_string(prefix);
			if (excMask) s += std::string(" exceptions(") + ((excMask & 2) ? "failbit" : "") + ((excMask & 4) ? "|eofbit" : "") + ")";
			if (seekBeyondFails) s += " seekBeyondFails";
		}
		return s;
	}
};

inline uint32_t DrawBinChunk(Source& s, Lane l) { static const uint32_t t[8] = { 256, 256, 256, 256, 128, 64, 32, 16 }; return s.pick(l, t); }
inline uint32_t DrawEncChunk(Source& s, Lane l) { static const uint32_t t[8] = { 256, 256, 256, 256, 128, 64, 36, 32 }; return s.pick(l, t); }

inline InCfg DrawStreamCfg(Source& s, Lane l = sim::L_IO)
{
	InCfg c;
	c.stream = true;
	c.seekable = !s.chance(l, 1, 4);
	c.seekBeyondFails = s.chance(l, 1, 2);
	const uint32_t n = s.draw(l, 4);   // 0: whole file at once
	for (uint32_t i = 0; i < n; ++i)
	{
		static const uint32_t sizes[12] = { 1, 2, 3, 4, 5, 7, 8, 15, 16, 31, 64, 300 };
		c.delivery.push_back(s.pick(l, sizes));
	}
	c.binChunk = DrawBinChunk(s, l);
	c.encChunk = DrawEncChunk(s, l);
	c.skipFastSeek = c.seekable && s.chance(l, 1, 8);
	if (s.chance(l, 1, 4)) { static const uint32_t starts[] = { 1, 3, 16, 255, 256, 257, 300, 1000 }; c.prefix = s.pick(l, starts); }
	return c;
}

inline void ApplyKnobs(const InCfg& c)
{
	BitSerializer::Detail::Verif::binaryChunkSize = c.binChunk;
	BitSerializer::Detail::Verif::skipFastSeek = c.skipFastSeek;
	BitSerializer::Convert::Utf::Verif::encodedChunkSize = c.encChunk;
}
inline void ResetKnobs()
{
	BitSerializer::Detail::Verif::binaryChunkSize = 256;
	BitSerializer::Detail::Verif::skipFastSeek = false;
	BitSerializer::Convert::Utf::Verif::encodedChunkSize = 0x10000;
}

// Allocation-failure window: C20 sets t_failAllocNext = k; the next library call (and only the library call) sees its
// k-th operator new fail. t_lastCallAllocs reports how many allocations the last library call made.
inline thread_local uint64_t t_failAllocNext = 0;
inline thread_local uint64_t t_lastCallAllocs = 0;
struct FailWindow
{
	uint64_t start;
	FailWindow()
	{
		auto& a = sim::alloc();
		start = a.ordinal;
		if (t_failAllocNext != 0 && a.armed) a.failAt = a.ordinal + t_failAllocNext;
		t_failAllocNext = 0;
	}
	~FailWindow()
	{
		auto& a = sim::alloc();
		a.failAt = 0;
		t_lastCallAllocs = a.ordinal - start;
	}
};

// The caller's input as a const object in the strict sense: a read-only mapping that ends at an inaccessible page, so a write
// into the input or a read past its end stops the process at the faulting instruction (no sanitizer sees mmap'ed memory).
class ReadOnlyCopy
{
public:
	explicit ReadOnlyCopy(const std::string& bytes)
	{
		const size_t page = 4096;
		mLen = ((bytes.size() + page - 1) / page + 1) * page;
		mBase = static_cast<char*>(mmap(nullptr, mLen, PROT_READ | PROT_WRITE, MAP_PRIVATE | MAP_ANONYMOUS, -1, 0));
		if (mBase == MAP_FAILED) throw std::runtime_error("harness: mmap failed");
		char* guard = mBase + mLen - page;
		mData = guard - bytes.size();
		if (!bytes.empty()) memcpy(mData, bytes.data(), bytes.size());
		mSize = bytes.size();
		if (mLen > page) mprotect(mBase, mLen - page, PROT_READ);
		mprotect(guard, page, PROT_NONE);
	}
	~ReadOnlyCopy() { munmap(mBase, mLen); }
	ReadOnlyCopy(const ReadOnlyCopy&) = delete;
	ReadOnlyCopy& operator=(const ReadOnlyCopy&) = delete;
	std::string_view view() const { return std::string_view(mData, mSize); }
private:
	char* mBase = nullptr;
	char* mData = nullptr;
	size_t mLen = 0, mSize = 0;
};

struct LoadInfo
{
	bool faultFired = false;
	bool seekFailed = false;
	bool reachedEof = false;
	uint64_t underflows = 0;
	bool streamBad = false;
	bool streamFail = false;
};

// A stream whose document starts at offset c.prefix: builds the padded content, shifts the fault positions, positions the stream
struct PaddedInput
{
	std::string padded;
	const std::string& Data(const std::string& bytes, const InCfg& c, sim::InFaults& faults)
	{
		if (!c.prefix) return bytes;
		padded.reserve(c.prefix + bytes.size());
		for (uint32_t i = 0; i < c.prefix; ++i) padded.push_back("#PAD"[i % 4]);
		padded += bytes;
		if (faults.eofAt != SIZE_MAX) faults.eofAt += c.prefix;
		if (faults.failAt != SIZE_MAX) faults.failAt += c.prefix;
		return padded;
	}
	static void Position(std::istream& is, const InCfg& c)
	{
		if (!c.prefix) return;
		// (the program that consumed the header; no look-ahead beyond it, so a fault placed at the first byte of the document stays there)
		if (c.seekable) is.seekg(static_cast<std::streamoff>(c.prefix));
		else for (uint32_t i = 0; i < c.prefix; ++i) is.rdbuf()->sbumpc();
	}
};

inline std::ios::iostate ExceptionMask(const InCfg& c, bool throwMode)
{
	std::ios::iostate m = std::ios::goodbit;
	if (throwMode) m |= std::ios::badbit;
	if (c.excMask & 2) m |= std::ios::failbit;
	if (c.excMask & 4) m |= std::ios::eofbit;
	return m;
}
inline uint8_t DrawExceptionMask(Source& s, Lane l) { static const uint8_t masks[] = { 2, 4, 6, 6 }; return s.pick(l, masks); }

// MessagePack as other encoders write it: non-negative integers in the signed formats (int8/16/32/64 = 0xD0..0xD3) wherever the
// value allows, for keys and values alike - same length as the unsigned formats, so only the format byte changes.
// Returns false (and leaves the bytes alone) if the document cannot be walked.
inline bool MsgPackWalkForeign(std::string& b, size_t& pos, int depth, uint32_t& flipped)
{
	if (depth > 200 || pos >= b.size()) return false;
	const unsigned char t = static_cast<unsigned char>(b[pos++]);
	auto need = [&](size_t n) { return pos + n <= b.size(); };
	auto be = [&](size_t n) { uint64_t v = 0; for (size_t i = 0; i < n; ++i) v = (v << 8) | static_cast<unsigned char>(b[pos + i]); return v; };
	auto items = [&](uint64_t n) { for (uint64_t i = 0; i < n; ++i) if (!MsgPackWalkForeign(b, pos, depth + 1, flipped)) return false; return true; };
	if (t <= 0x7f || t >= 0xe0 || t == 0xc0 || t == 0xc2 || t == 0xc3) return true;
	if (t >= 0xa0 && t <= 0xbf) { const size_t n = t & 0x1f; if (!need(n)) return false; pos += n; return true; }
	if (t >= 0x90 && t <= 0x9f) return items(t & 0x0f);
	if (t >= 0x80 && t <= 0x8f) return items(2ull * (t & 0x0f));
	switch (t)
	{
	case 0xcc: case 0xcd: case 0xce: case 0xcf:
	{
		const size_t n = size_t(1) << (t - 0xcc);
		if (!need(n)) return false;
		if ((static_cast<unsigned char>(b[pos]) & 0x80) == 0) { b[pos - 1] = static_cast<char>(0xd0 + (t - 0xcc)); ++flipped; }
		pos += n;
		return true;
	}
	case 0xd0: case 0xd1: case 0xd2: case 0xd3: { const size_t n = size_t(1) << (t - 0xd0); if (!need(n)) return false; pos += n; return true; }
	case 0xca: if (!need(4)) return false; pos += 4; return true;
	case 0xcb: if (!need(8)) return false; pos += 8; return true;
	case 0xc4: case 0xd9: { if (!need(1)) return false; const uint64_t n = be(1); pos += 1; if (!need(n)) return false; pos += n; return true; }
	case 0xc5: case 0xda: { if (!need(2)) return false; const uint64_t n = be(2); pos += 2; if (!need(n)) return false; pos += n; return true; }
	case 0xc6: case 0xdb: { if (!need(4)) return false; const uint64_t n = be(4); pos += 4; if (!need(n)) return false; pos += n; return true; }
	case 0xdc: { if (!need(2)) return false; const uint64_t n = be(2); pos += 2; return items(n); }
	case 0xdd: { if (!need(4)) return false; const uint64_t n = be(4); pos += 4; return items(n); }
	case 0xde: { if (!need(2)) return false; const uint64_t n = be(2); pos += 2; return items(2 * n); }
	case 0xdf: { if (!need(4)) return false; const uint64_t n = be(4); pos += 4; return items(2 * n); }
	case 0xd4: case 0xd5: case 0xd6: case 0xd7: case 0xd8: { const size_t n = 1 + (size_t(1) << (t - 0xd4)); if (!need(n)) return false; pos += n; return true; }
	case 0xc7: { if (!need(1)) return false; const uint64_t n = be(1); pos += 1; if (!need(n + 1)) return false; pos += n + 1; return true; }
	case 0xc8: { if (!need(2)) return false; const uint64_t n = be(2); pos += 2; if (!need(n + 1)) return false; pos += n + 1; return true; }
	case 0xc9: { if (!need(4)) return false; const uint64_t n = be(4); pos += 4; if (!need(n + 1)) return false; pos += n + 1; return true; }
	default: return false;
	}
}
inline uint32_t MsgPackAsForeignEncoder(std::string& bytes)
{
	std::string copy = bytes;
	size_t pos = 0;
	uint32_t flipped = 0;
	if (!MsgPackWalkForeign(copy, pos, 0, flipped) || pos != copy.size()) return 0;
	bytes.swap(copy);
	return flipped;
}

// Loads `skel` from `bytes` through the configured entry. `eofAt`/`failAt` are fault positions (SIZE_MAX = none).
inline CallResult LoadDynWith(ArchiveOps& ops, DynNode& skel, const std::string& bytes, const SerializationOptions& o, const InCfg& c,
	sim::InFaults faults = {}, bool throwMode = false, LoadInfo* info = nullptr)
{
	ApplyKnobs(c);
	CallResult r;
	if (!c.stream)
	{
		if (faults.eofAt < bytes.size())
		{
			const std::string prefix = bytes.substr(0, faults.eofAt);
			r = Guarded([&] { FailWindow fw; ops.LoadDyn(skel, o, IoIn{ &prefix, nullptr }); });
			if (info) info->faultFired = true;
		}
		else if (c.readOnlyMem)
		{
			ReadOnlyCopy ro(bytes);
			const std::string_view v = ro.view();
			r = Guarded([&] { FailWindow fw; ops.LoadDyn(skel, o, IoIn{ nullptr, nullptr, &v }); });
		}
		else
		{
			r = Guarded([&] { FailWindow fw; ops.LoadDyn(skel, o, IoIn{ &bytes, nullptr }); });
		}
	}
	else
	{
		const uint64_t seekFailBefore = sim::ev_kind_count(sim::EV_R_SEEK_FAIL);
		const uint64_t underBefore = sim::ev_kind_count(sim::EV_R_UNDERFLOW);
		PaddedInput pad;
		const std::string& content = pad.Data(bytes, c, faults);
		sim::SimIStreamBuf sb(content, c.seekable, c.delivery, faults);
		sb.SetSeekBeyondFails(c.seekBeyondFails);
		std::istream is(&sb);
		try { PaddedInput::Position(is, c); } catch (...) {}
		r = Guarded([&] { is.exceptions(ExceptionMask(c, throwMode)); FailWindow fw; ops.LoadDyn(skel, o, IoIn{ nullptr, &is }); });
		if (info)
		{
			info->faultFired = sb.FaultFired();
			info->reachedEof = sb.ReachedEof();
			info->seekFailed = sim::ev_kind_count(sim::EV_R_SEEK_FAIL) != seekFailBefore;
			info->underflows = sim::ev_kind_count(sim::EV_R_UNDERFLOW) - underBefore;
			info->streamBad = is.bad();
			info->streamFail = is.fail();
		}
	}
	ResetKnobs();
	return r;
}

struct OutCfg
{
	bool stream = false;
	uint32_t bufSize = 0;
	std::string str() const { return stream ? "stream(buf=" + std::to_string(bufSize) + ")" : "mem"; }
};

inline CallResult SaveDynWith(ArchiveOps& ops, DynNode& root, std::string& outBytes, const SerializationOptions& o, const OutCfg& c,
	sim::OutFaults faults = {}, bool* faultFired = nullptr, bool* streamFailed = nullptr)
{
	outBytes.clear();
	if (!c.stream)
	{
		return Guarded([&] { FailWindow fw; ops.SaveDyn(root, o, IoOut{ &outBytes, nullptr }); });
	}
	sim::SimOStreamBuf sb(outBytes, c.bufSize, faults);
	std::ostream os(&sb);
	if (faults.throwing) os.exceptions(std::ios::badbit);
	CallResult r = Guarded([&] { FailWindow fw; ops.SaveDyn(root, o, IoOut{ nullptr, &os }); });
	// the flush any real program performs before it looks at the file
	try { os.flush(); } catch (...) {}
	if (faultFired) *faultFired = sb.FaultFired();
	if (streamFailed) *streamFailed = os.fail();
	return r;
}

// ------------------------------------------------------------------------------------------------
// value generators (biased to boundaries)
// ------------------------------------------------------------------------------------------------
inline int64_t GenSigned(Source& s, Lane l, int bits)
{
	// choice 0 -> 0
	const uint32_t mode = s.draw(l, 6);
	const int64_t lim = bits == 64 ? INT64_MAX : (int64_t(1) << (bits - 1)) - 1;
	const int64_t minv = -lim - 1;
	switch (mode)
	{
	case 0: return static_cast<int64_t>(s.draw(l, 4)) ;
	case 1: return -static_cast<int64_t>(s.draw(l, 130));
	case 2: { static const int sh[] = { 5, 7, 8, 15, 16, 31, 32, 63 }; int k = s.pick(l, sh); if (k >= bits) k = bits - 1; __int128 v = (__int128(1) << k); v += s.range(l, -2, 2); if (s.chance(l, 1, 2)) v = -v; if (v > lim) v = lim; if (v < minv) v = minv; return static_cast<int64_t>(v); }
	case 3: return lim - static_cast<int64_t>(s.draw(l, 3));
	case 4: return minv + static_cast<int64_t>(s.draw(l, 3));
	default: { uint64_t r = (uint64_t(s.draw(l, 0xFFFFFFFFu)) << 32) | s.draw(l, 0xFFFFFFFFu); int64_t v = static_cast<int64_t>(r); if (bits < 64) { v >>= (64 - bits); } return v; }
	}
}

inline uint64_t GenUnsigned(Source& s, Lane l, int bits)
{
	const uint32_t mode = s.draw(l, 5);
	const uint64_t lim = bits == 64 ? UINT64_MAX : (uint64_t(1) << bits) - 1;
	switch (mode)
	{
	case 0: return s.draw(l, 4);
	case 1: return s.draw(l, 300) & lim;
	case 2: { static const int sh[] = { 5, 7, 8, 15, 16, 31, 32, 63 }; int k = s.pick(l, sh); uint64_t v = (uint64_t(1) << k); v += static_cast<uint64_t>(s.range(l, -2, 2)); return v & lim; }
	case 3: return lim - s.draw(l, 3);
	default: { uint64_t r = (uint64_t(s.draw(l, 0xFFFFFFFFu)) << 32) | s.draw(l, 0xFFFFFFFFu); return r & lim; }
	}
}

inline double GenDouble(Source& s, Lane l, bool allowNonFinite)
{
	const uint32_t mode = s.draw(l, 8);
	switch (mode)
	{
	case 0: return 0.0;
	case 1: return static_cast<double>(s.range(l, -100, 100));
	case 2: return static_cast<double>(s.range(l, -1000, 1000)) / 8.0;
	case 3: return std::ldexp(1.0, static_cast<int>(s.range(l, -60, 60)));
	case 4: { static const double t[] = { 0.1, 1e10, -1e-10, 3.141592653589793, 1.7976931348623157e308, 2.2250738585072014e-308, 4.9e-324, -0.0, 123456789.125 }; return s.pick(l, t); }
	case 5: { static const double t[] = { 3.4028234663852886e38, 1.17549435e-38, 16777216.0, 16777217.0, 1e39, -1e39 }; return s.pick(l, t); }
	case 6:
		if (allowNonFinite) { static const double t[] = { INFINITY, -INFINITY, NAN }; return s.pick(l, t); }
		return 1.5;
	default: { uint64_t r = (uint64_t(s.draw(l, 0xFFFFFFFFu)) << 32) | s.draw(l, 0xFFFFFFFFu); double d; memcpy(&d, &r, 8); if (!std::isfinite(d)) d = 2.5; return d; }
	}
}

inline float GenFloat(Source& s, Lane l, bool allowNonFinite)
{
	const uint32_t mode = s.draw(l, 6);
	switch (mode)
	{
	case 0: return 0.0f;
	case 1: return static_cast<float>(s.range(l, -100, 100));
	case 2: return static_cast<float>(s.range(l, -1000, 1000)) / 8.0f;
	case 3: { static const float t[] = { 0.1f, 3.4028235e38f, 1.17549435e-38f, 1e-45f, -0.0f, 16777216.0f, 3.1415927f }; return s.pick(l, t); }
	case 4:
		if (allowNonFinite) { static const float t[] = { INFINITY, -INFINITY, NAN }; return s.pick(l, t); }
		return 1.5f;
	default: { uint32_t r = s.draw(l, 0xFFFFFFFFu); float f; memcpy(&f, &r, 4); if (!std::isfinite(f)) f = 2.5f; return f; }
	}
}

// Text profiles: what the carrying format allows
enum class TextProfile { Any, Xml, Csv, Ascii };

inline char32_t GenCodePoint(Source& s, Lane l, TextProfile p)
{
	for (int attempt = 0; attempt < 8; ++attempt)
	{
		char32_t c;
		const uint32_t mode = s.draw(l, p == TextProfile::Ascii ? 2 : 10);
		switch (mode)
		{
		case 0: c = U'a' + s.draw(l, 26); break;
		case 1: { static const char32_t t[] = { U' ', U'0', U'Z', U'_', U'-', U'.', U'~', U'!', U'@' }; c = s.pick(l, t); break; }
		case 2: { static const char32_t t[] = { U'"', U',', U';', U'\t', U'|', U'\n', U'\r', U'<', U'>', U'&', U'\'', U'\\', U'/', U'{', U'[', U':' }; c = s.pick(l, t); break; }
		case 3: c = 0x80 + s.draw(l, 0x780); break;                 // 2-byte UTF-8
		case 4: c = 0x800 + s.draw(l, 0xF800); break;               // 3-byte UTF-8 (may hit surrogates -> retried)
		case 5: c = 0x10000 + s.draw(l, 0x100000); break;           // 4-byte UTF-8, surrogate pair in UTF-16
		case 6: { static const char32_t t[] = { 0x7F, 0x80, 0x7FF, 0x800, 0xD7FF, 0xE000, 0xFFFD, 0xFEFF, 0xFFFE, 0xFFFF, 0x10000, 0x10FFFF, 0x1F600, 0x20AC, 0x416 }; c = s.pick(l, t); break; }
		case 7: c = s.draw(l, 0x20); break;                         // control characters incl. NUL
		case 8: c = 0x400 + s.draw(l, 0x100); break;                // Cyrillic
		default: c = U'A' + s.draw(l, 26); break;
		}
		if (c >= 0xD800 && c <= 0xDFFF) continue;
		if (c > 0x10FFFF) continue;
		if (p == TextProfile::Xml)
		{
			// XML 1.0 Char, minus CR (parsers normalise it) and the non-characters FFFE/FFFF
			if (c < 0x20 && c != U'\t' && c != U'\n') continue;
			if (c == 0xFFFE || c == 0xFFFF) continue;
		}
		if (p == TextProfile::Csv && c == 0) continue;
		return c;
	}
	return U'x';
}

inline void AppendUtf8(std::string& out, char32_t c)
{
	if (c < 0x80) out.push_back(static_cast<char>(c));
	else if (c < 0x800) { out.push_back(static_cast<char>(0xC0 | (c >> 6))); out.push_back(static_cast<char>(0x80 | (c & 0x3F))); }
	else if (c < 0x10000) { out.push_back(static_cast<char>(0xE0 | (c >> 12))); out.push_back(static_cast<char>(0x80 | ((c >> 6) & 0x3F))); out.push_back(static_cast<char>(0x80 | (c & 0x3F))); }
	else { out.push_back(static_cast<char>(0xF0 | (c >> 18))); out.push_back(static_cast<char>(0x80 | ((c >> 12) & 0x3F))); out.push_back(static_cast<char>(0x80 | ((c >> 6) & 0x3F))); out.push_back(static_cast<char>(0x80 | (c & 0x3F))); }
}
inline void AppendUtf16(std::u16string& out, char32_t c)
{
	if (c < 0x10000) out.push_back(static_cast<char16_t>(c));
	else { c -= 0x10000; out.push_back(static_cast<char16_t>(0xD800 + (c >> 10))); out.push_back(static_cast<char16_t>(0xDC00 + (c & 0x3FF))); }
}

// length classes relative to chunk sizes
inline uint32_t GenLength(Source& s, Lane l, uint32_t maxLen)
{
	const uint32_t mode = s.draw(l, 8);
	uint32_t n;
	switch (mode)
	{
	case 0: n = s.draw(l, 4); break;
	case 1: n = s.draw(l, 20); break;
	case 2: { static const uint32_t t[] = { 15, 16, 17, 31, 32, 33 }; n = s.pick(l, t); break; }
	case 3: { static const uint32_t t[] = { 62, 63, 64, 65, 127, 128, 129 }; n = s.pick(l, t); break; }
	case 4: { static const uint32_t t[] = { 254, 255, 256, 257, 258, 300 }; n = s.pick(l, t); break; }
	case 5: n = s.draw(l, 80); break;
	case 6: n = 200 + s.draw(l, 400); break;
	default: n = s.draw(l, 8); break;
	}
	return std::min(n, maxLen);
}

inline std::u32string GenText(Source& s, Lane l, TextProfile p, uint32_t maxLen)
{
	const uint32_t n = GenLength(s, l, maxLen);
	std::u32string t;
	t.reserve(n);
	// mostly-ASCII texts with a few special characters keep documents readable and still hit every class
	const bool plain = s.chance(l, 1, 2);
	for (uint32_t i = 0; i < n; ++i)
	{
		if (plain && !s.chance(l, 1, 8)) t.push_back(U'a' + (i % 26));
		else t.push_back(GenCodePoint(s, l, p));
	}
	// 1 text in 6 (when there is room): the multi-character sequences that mean something to one of the formats
	if (maxLen >= 16 && p != TextProfile::Ascii && s.chance(l, 1, 6))
	{
		static const char* const markup[] = { "]]>", "<![CDATA[", "&amp;", "&lt;", "&#65;", "&", "<", "<a>", "</a>", "<!--", "-->", "<?x?>", "\"\"", "\",\"", "\\u0041", "\\", "\\\"", "\n", "\t", ",", ";", "|", "//", "/*", "${x}", "%s" };
		const uint32_t k = 1 + s.draw(l, 3);
		for (uint32_t i = 0; i < k; ++i)
		{
			const char* tok = s.pick(l, markup);
			std::u32string wide;
			for (const char* q = tok; *q; ++q) wide.push_back(static_cast<char32_t>(static_cast<unsigned char>(*q)));
			t.insert(s.draw(l, static_cast<uint32_t>(t.size() + 1)), wide);
		}
	}
	return t;
}

inline std::string ToUtf8(const std::u32string& t) { std::string r; for (auto c : t) AppendUtf8(r, c); return r; }
inline std::u16string ToUtf16(const std::u32string& t) { std::u16string r; for (auto c : t) AppendUtf16(r, c); return r; }

// ------------------------------------------------------------------------------------------------
// DynNode generation
// ------------------------------------------------------------------------------------------------
struct GenCfg
{
	int archive = A_MSGPACK;
	uint32_t maxStr = 600;
	uint32_t maxNodes = 40;
	int maxDepth = 4;
	bool allowNonFinite = false;
	bool allowEmptyContainers = true;
	bool allowIntKeys = false;
	bool allowBin = true;
	bool forceContainerRoot = false;
	bool binAsArray = false;            // MsgPack: 1 byte container in 4 is stored as a plain array of integers
	bool simpleFloats = false;          // KF-JSON-DOUBLE-PRECISION: doubles that RapidJSON's fast parser reads exactly
	uint32_t kindMask = 0xFFFFFFFFu;   // swarm: enabled kinds
};

inline TextProfile ProfileFor(int archive)
{
	switch (archive)
	{
	case A_XML: return TextProfile::Xml;
	case A_CSV: return TextProfile::Csv;
	default: return TextProfile::Any;
	}
}

inline std::string GenKeyName(Source& s, Lane l, int archive, size_t index)
{
	// unique by construction: the index is part of the name
	std::string k;
	if (archive == A_XML)
	{
		static const char* starts[] = { "a", "Key", "_x", "n" };
		k = s.pick(l, starts);
		const uint32_t n = s.draw(l, 4);
		for (uint32_t i = 0; i < n; ++i) { static const char chars[] = "abcXYZ_-.09"; k.push_back(chars[s.draw(l, sizeof chars - 1)]); }
		k += std::to_string(index);
		return k;
	}
	const uint32_t mode = s.draw(l, 6);
	switch (mode)
	{
	case 0: k = "k"; break;
	case 1: k = "Field"; break;
	case 2: { const uint32_t n = 1 + s.draw(l, 40); for (uint32_t i = 0; i < n; ++i) k.push_back('a' + (i % 26)); break; }
	case 3: { auto t = GenText(s, l, archive == A_CSV ? TextProfile::Csv : TextProfile::Any, 12); k = ToUtf8(t); if (archive == A_CSV) { for (auto& ch : k) if (ch == '\r' || ch == '\n') ch = '_'; } break; }
	case 4: k = "key with space"; break;
	default: k = "x"; break;
	}
	for (auto& ch : k) if (ch == 0) ch = '0';
	k += std::to_string(index);
	return k;
}

// Calendar corners (seconds since 1970): leap days, the days around them, century years that are (2000) and are not (1900, 2100)
// leap years, year ends; `wide` adds the leap days of 1600 and 2400 (outside the range of a nanosecond system_clock)
inline int64_t CalendarCorner(Source& s, Lane l, bool wide)
{
	static const int64_t days[] = {
		951782400ll /*2000-02-29*/, 951696000ll /*2000-02-28*/, 951868800ll /*2000-03-01*/, 68169600ll /*1972-02-29*/, 1709164800ll /*2024-02-29*/,
		-58060800ll /*1968-02-29*/, -2203891200ll /*1900-03-01*/, -2203977600ll /*1900-02-28*/, 4107542400ll /*2100-03-01*/, 4107456000ll /*2100-02-28*/,
		946598400ll /*1999-12-31*/, 946684800ll /*2000-01-01*/, -86400ll /*1969-12-31*/, 978220800ll /*2000-12-31*/,
		13574563200ll /*2400-02-29*/, -11670998400ll /*1600-02-29*/ };
	const uint32_t n = static_cast<uint32_t>(sizeof(days) / sizeof(days[0])) - (wide ? 0 : 2);
	const int64_t day = days[s.draw(l, n)];
	static const int64_t inDay[] = { 0, 1, 43200, 45296, 86399 };
	return day + s.pick(l, inDay);
}

inline void GenScalar(Source& s, Lane l, DynNode& n, const GenCfg& g)
{
	const TextProfile tp = ProfileFor(g.archive);
	switch (n.kind)
	{
	case K::Bool: n.b = s.chance(l, 1, 2); break;
	case K::I8: n.i8 = static_cast<int8_t>(GenSigned(s, l, 8)); break;
	case K::U8: n.u8 = static_cast<uint8_t>(GenUnsigned(s, l, 8)); break;
	case K::I16: n.i16 = static_cast<int16_t>(GenSigned(s, l, 16)); break;
	case K::U16: n.u16 = static_cast<uint16_t>(GenUnsigned(s, l, 16)); break;
	case K::I32: n.i32 = static_cast<int32_t>(GenSigned(s, l, 32)); break;
	case K::U32: n.u32 = static_cast<uint32_t>(GenUnsigned(s, l, 32)); break;
	case K::I64: n.i64 = GenSigned(s, l, 64); break;
	case K::U64: n.u64 = GenUnsigned(s, l, 64); break;
	case K::F32: n.f32 = GenFloat(s, l, g.allowNonFinite); if (g.simpleFloats && std::isfinite(n.f32) && std::fabs(n.f32) > 3.4e38f) n.f32 = 1.5f; break;
	case K::F64:
		if (g.simpleFloats) { n.f64 = static_cast<double>(s.range(l, -100000, 100000)) / 8.0; if (g.allowNonFinite && s.chance(l, 1, 8)) n.f64 = GenDouble(s, l, true); if (std::isfinite(n.f64) && n.f64 != std::floor(n.f64 * 8.0) / 8.0) n.f64 = 0.5; }
		else n.f64 = GenDouble(s, l, g.allowNonFinite);
		break;
	case K::Str: n.s = ToUtf8(GenText(s, l, tp, g.maxStr)); break;
	case K::Str16: n.s16 = ToUtf16(GenText(s, l, tp, g.maxStr / 2)); break;
	case K::Str32: n.s32 = GenText(s, l, tp, g.maxStr / 4); break;
	case K::WStr: { auto t = GenText(s, l, tp, g.maxStr / 4); n.ws.assign(t.begin(), t.end()); break; }
	case K::Ts:
	{
		// around the epoch, before it (timestamp 96 in MsgPack), far future, with and without sub-second parts; inside +-250 years
		static const int64_t bases[] = { 0, 1, -1, 1700000000ll, -1700000000ll, 4294967295ll, 4294967296ll, 17179869183ll, 17179869184ll, -7000000000ll, 7000000000ll };
		int64_t secs = s.pick(l, bases) + s.range(l, -3, 3);
		if (s.chance(l, 1, 3)) secs = GenSigned(s, l, 33);
		else if (s.chance(l, 1, 4)) secs = CalendarCorner(s, l, false);
		const int64_t sub = s.chance(l, 1, 2) ? 0 : static_cast<int64_t>(s.draw(l, 1000000000));
		if (secs > 7800000000ll) secs = 7800000000ll;
		if (secs < -7800000000ll) secs = -7800000000ll;
		n.tp = std::chrono::system_clock::time_point(std::chrono::duration_cast<std::chrono::system_clock::duration>(std::chrono::seconds(secs) + std::chrono::nanoseconds(sub)));
		break;
	}
	case K::Bin: { uint32_t len = GenLength(s, l, g.maxStr); if (len == 0 && !g.allowEmptyContainers) len = 1; n.bin.resize(len); for (auto& b : n.bin) b = static_cast<unsigned char>(s.draw(l, 256)); if (g.binAsArray && g.archive == A_MSGPACK && s.chance(l, 1, 4)) n.binAsArray = true; break; }
	default: break;
	}
}

inline K DrawLeafKind(Source& s, Lane l, const GenCfg& g)
{
	static const K leafs[] = { K::I32, K::Str, K::Bool, K::I8, K::U8, K::I16, K::U16, K::U32, K::I64, K::U64, K::F32, K::F64, K::Null, K::Str16, K::Str32, K::WStr, K::Bin, K::Ts };
	for (int attempt = 0; attempt < 16; ++attempt)
	{
		const K k = s.pick(l, leafs);
		if (!(g.kindMask & (1u << static_cast<int>(k)))) continue;
		if (k == K::Bin && (!g.allowBin || g.archive == A_CSV)) continue;
		return k;
	}
	return K::I32;
}

inline void GenTree(Source& s, Lane l, DynNode& n, const GenCfg& g, int depth, uint32_t& budget);

inline void GenChildren(Source& s, Lane l, DynNode& n, const GenCfg& g, int depth, uint32_t& budget, bool object)
{
	uint32_t count = s.draw(l, 7);
	if (count == 6) count = 6 + s.draw(l, 14);
	if (!g.allowEmptyContainers && count == 0) count = 1;
	// homogeneous arrays are what containers produce; mixed arrays are what tuples/custom types produce
	const bool homogeneous = !object && s.chance(l, 1, 2);
	const bool cstrKeys = object && s.chance(l, 1, 2);
	const bool carrKeys = object && !cstrKeys && s.chance(l, 1, 3);
	K hk = K::I32;
	for (uint32_t i = 0; i < count && budget > 0; ++i)
	{
		--budget;
		DynNode c;
		const uint32_t shape = depth < g.maxDepth ? s.draw(l, 8) : 0;
		if (shape == 6) c.kind = K::Arr;
		else if (shape == 7) c.kind = K::Obj;
		else c.kind = DrawLeafKind(s, l, g);
		if (homogeneous) { if (i == 0) hk = c.kind; else c.kind = hk; }
		GenTree(s, l, c, g, depth + 1, budget);
		n.items.push_back(std::move(c));
		if (object)
		{
			Key k;
			if (g.allowIntKeys && s.chance(l, 1, 6))
			{
				k.isInt = true;
				k.i = static_cast<int64_t>(i) * 7 + s.range(l, -3, 3) * 1000;
				if (s.chance(l, 1, 3))
				{
					// unsigned keys at the edges of the integer widths (user code: uint64_t key)
					static const uint64_t edges[] = { 127, 128, 255, 256, 65535, 65536, 4294967295ull, 4294967296ull, 9223372036854775807ull, 9223372036854775808ull, 18446744073709551615ull };
					Key e; e.isInt = true; e.ikind = 1; e.u = s.pick(l, edges);
					bool clash = false;
					for (auto& o : n.keys) if (o == e) clash = true;
					if (!clash) k = e;
				}
				else if (s.chance(l, 1, 2))
				{
					// the same value through a narrower key type
					if (k.i >= -128 && k.i <= 127) k.ikind = 3; else k.ikind = 2;
				}
			}
			else
			{
				k.cstr = cstrKeys;
				k.carr = carrKeys;
				k.s = GenKeyName(s, l, g.archive, i);
				// an integer key is converted to its decimal text by the text archives: keep string keys distinct from those
				if (k.s.find_first_not_of("-0123456789") == std::string::npos) k.s = "s" + k.s;
				if (!n.keys.empty() && !n.keys.back().isInt && s.chance(l, 1, 5))
				{
					// a key that extends the previous member's key (one is a proper prefix of the other)
					Key e = k; e.s = n.keys.back().s + (s.chance(l, 1, 2) ? "2" : "_x");
					bool clash = false;
					for (auto& o : n.keys) if (o == e) clash = true;
					if (!clash) k = e;
				}
				// names are unique by their index suffix, except against an earlier extended name
				for (bool again = true; again;)
				{
					again = false;
					for (auto& o : n.keys) if (o == k) { k.s += "u"; again = true; }
				}
			}
			k.Seal();
			n.keys.push_back(std::move(k));
		}
	}
	if (!g.allowEmptyContainers && n.items.empty())
	{
		DynNode c(K::I32);
		n.items.push_back(c);
		if (object) { Key k; k.s = "k0"; n.keys.push_back(k); }
	}
}

inline void GenTree(Source& s, Lane l, DynNode& n, const GenCfg& g, int depth, uint32_t& budget)
{
	if (n.kind == K::Arr) GenChildren(s, l, n, g, depth, budget, false);
	else if (n.kind == K::Obj) GenChildren(s, l, n, g, depth, budget, true);
	else GenScalar(s, l, n, g);
}

// CSV table: array of flat objects sharing the same keys and kinds
inline void GenCsvTable(Source& s, Lane l, DynNode& root, const GenCfg& g)
{
	root = DynNode(K::Arr);
	const uint32_t cols = 1 + s.draw(l, 6);
	uint32_t rows = s.draw(l, 6);
	if (rows == 5) rows = 5 + s.draw(l, 20);
	if (!g.allowEmptyContainers && rows == 0) rows = 1;
	std::vector<Key> keys;
	std::vector<K> kinds;
	for (uint32_t c = 0; c < cols; ++c)
	{
		Key k;
		k.s = GenKeyName(s, l, A_CSV, c);
		// C13's stated precondition for BOM-less text streams: the document begins with an ASCII character other than NUL
		if (c == 0 && (k.s.empty() || static_cast<unsigned char>(k.s[0]) >= 0x80 || static_cast<unsigned char>(k.s[0]) < 0x20)) k.s.insert(k.s.begin(), 'h');
		keys.push_back(k);
		kinds.push_back(DrawLeafKind(s, l, g));
	}
	for (uint32_t r = 0; r < rows; ++r)
	{
		DynNode row(K::Obj);
		row.keys = keys;
		for (uint32_t c = 0; c < cols; ++c)
		{
			DynNode v(kinds[c]);
			GenScalar(s, l, v, g);
			row.items.push_back(std::move(v));
		}
		root.items.push_back(std::move(row));
	}
}

// Root document appropriate for the archive
inline DynNode GenDocument(Source& s, Lane l, const GenCfg& g)
{
	DynNode root;
	if (g.archive == A_CSV) { GenCsvTable(s, l, root, g); return root; }
	uint32_t budget = g.maxNodes;
	const uint32_t shape = s.draw(l, (g.archive == A_XML || g.forceContainerRoot) ? 2 : 4);
	if (shape == 0) root.kind = K::Obj;
	else if (shape == 1) root.kind = K::Arr;
	else root.kind = DrawLeafKind(s, l, g);
	GenTree(s, l, root, g, 0, budget);
	return root;
}

inline SerializationOptions GenLoadOptions(Source& s, Lane l, int archive)
{
	SerializationOptions o;
	o.mismatchedTypesPolicy = s.chance(l, 1, 3) ? BitSerializer::MismatchedTypesPolicy::Skip : BitSerializer::MismatchedTypesPolicy::ThrowError;
	o.overflowNumberPolicy = s.chance(l, 1, 3) ? BitSerializer::OverflowNumberPolicy::Skip : BitSerializer::OverflowNumberPolicy::ThrowError;
	o.utfEncodingErrorPolicy = s.chance(l, 1, 3) ? BitSerializer::Convert::Utf::UtfEncodingErrorPolicy::Skip : BitSerializer::Convert::Utf::UtfEncodingErrorPolicy::ThrowError;
	if (archive == A_CSV) { static const char seps[] = { ',', ';', '\t', ' ', '|' }; o.valuesSeparator = s.pick(l, seps); }
	o.streamOptions.writeBom = false;
	return o;
}

inline std::string OptStr(const SerializationOptions& o)
{
	std::string r = "mismatch=";
	r += o.mismatchedTypesPolicy == BitSerializer::MismatchedTypesPolicy::Skip ? "skip" : "throw";
	r += " overflow=";
	r += o.overflowNumberPolicy == BitSerializer::OverflowNumberPolicy::Skip ? "skip" : "throw";
	r += " utf=";
	r += o.utfEncodingErrorPolicy == BitSerializer::Convert::Utf::UtfEncodingErrorPolicy::Skip ? "skip" : "throw";
	r += " sep=";
	r += std::to_string(static_cast<int>(o.valuesSeparator));
	r += " enc=" + std::to_string(static_cast<int>(o.streamOptions.encoding)) + (o.streamOptions.writeBom ? "+bom" : "");
	if (o.formatOptions.enableFormat) r += " format(" + std::to_string(static_cast<int>(o.formatOptions.paddingChar)) + "x" + std::to_string(o.formatOptions.paddingCharNum) + ")";
	return r;
}

// Trace representation of a loaded skeleton: values + loaded flags + array counts + program results
inline void TraceRepr(const DynNode& n, std::string& out)
{
	out += KName(n.kind);
	out += n.loaded ? "+" : "-";
	if (n.kind == K::Arr)
	{
		out += "[" + std::to_string(n.loadedCount) + (n.extra ? "x" : "") + ":";
		for (auto& c : n.items) { TraceRepr(c, out); out.push_back(','); }
		out += "]";
	}
	else if (n.kind == K::Obj)
	{
		out += "{";
		for (auto& c : n.items) { TraceRepr(c, out); out.push_back(','); }
		for (auto& r : n.results)
		{
			out += "|op" + std::to_string(r.type) + ":" + std::to_string(r.member) + (r.loaded ? "+" : "-") + (r.untouched ? "" : "!") + r.valueRepr;
			for (auto& k : r.keys) { out += "~" + k; }
		}
		out += "}";
	}
	else
	{
		std::string v;
		Repr(n, v);
		out += v;
	}
}
inline std::string TraceRepr(const DynNode& n) { std::string s; TraceRepr(n, s); return s; }

// first path where two canonical strings differ (for detail messages)
inline std::string DiffAt(const std::string& a, const std::string& b)
{
	size_t i = 0;
	while (i < a.size() && i < b.size() && a[i] == b[i]) ++i;
	auto cut = [&](const std::string& s) { size_t from = i > 24 ? i - 24 : 0; return s.substr(from, 72); };
	return "at " + std::to_string(i) + " expected=..." + cut(a) + " actual=..." + cut(b);
}

using ScenarioFn = Outcome(*)(RunCtx&);
struct ScenarioDef { const char* property; ScenarioFn fn; };

} // namespace hz
