// C13 — encoded text streams: detection, BOM and chunked decoding are lossless.
// Reader leg: reference-encoded text on a simulated file with an EOF fault at byte n, read through CEncodedStreamReader
// (every chunk size, every target width, both policies). Writer leg: CEncodedStreamWriter against the reference encoding.
// Archive leg: hand-built CSV/JSON/XML documents, reference-encoded, loaded through the stream entry points.
#include "scen_util.h"
#include "bitserializer/conversion_detail/convert_utf.h"

namespace hz {

using BitSerializer::Convert::Utf::UtfType;
using BitSerializer::Convert::Utf::UtfEncodingErrorPolicy;
using BitSerializer::Convert::Utf::EncodedStreamReadResult;

// ---- independent reference codec (written from the Unicode standard, shares no code with convert_utf.h) ----
static void RefEncode(std::string& out, char32_t c, int enc)
{
	auto put16 = [&](uint16_t u, bool be) { if (be) { out.push_back(static_cast<char>(u >> 8)); out.push_back(static_cast<char>(u & 0xFF)); } else { out.push_back(static_cast<char>(u & 0xFF)); out.push_back(static_cast<char>(u >> 8)); } };
	switch (enc)
	{
	case 0: AppendUtf8(out, c); break;
	case 1: case 2:
		if (c < 0x10000) put16(static_cast<uint16_t>(c), enc == 2);
		else { const char32_t v = c - 0x10000; put16(static_cast<uint16_t>(0xD800 + (v >> 10)), enc == 2); put16(static_cast<uint16_t>(0xDC00 + (v & 0x3FF)), enc == 2); }
		break;
	case 3: for (int i = 0; i < 4; ++i) out.push_back(static_cast<char>((c >> (8 * i)) & 0xFF)); break;
	default: for (int i = 3; i >= 0; --i) out.push_back(static_cast<char>((c >> (8 * i)) & 0xFF)); break;
	}
}
static std::string RefBom(int enc)
{
	switch (enc)
	{
	case 0: return "\xEF\xBB\xBF";
	case 1: return "\xFF\xFE";
	case 2: return "\xFE\xFF";
	case 3: return std::string("\xFF\xFE\x00\x00", 4);
	default: return std::string("\x00\x00\xFE\xFF", 4);
	}
}
static const char* EncName(int e) { static const char* n[] = { "utf8", "utf16le", "utf16be", "utf32le", "utf32be" }; return n[e]; }

template <class TChar> static void RefAppendTarget(std::basic_string<TChar>& out, char32_t c)
{
	if constexpr (sizeof(TChar) == 1) { std::string t; AppendUtf8(t, c); out.append(t.begin(), t.end()); }
	else if constexpr (sizeof(TChar) == 2) { std::u16string t; AppendUtf16(t, c); out.append(t.begin(), t.end()); }
	else out.push_back(static_cast<TChar>(c));
}
template <class TChar> static std::string HexOf(const std::basic_string<TChar>& s) { std::string r; HexAppend(r, s.data(), s.size() * sizeof(TChar)); return r; }

struct ReadOutcome
{
	std::string decodedHex;
	int detected = -1;
	bool decodeError = false;
	bool endFile = false;
	uint32_t chunks = 0;
};

template <class TChar, size_t Chunk>
static ReadOutcome ReadAll(std::istream& is, UtfEncodingErrorPolicy policy)
{
	ReadOutcome o;
	BitSerializer::Convert::Utf::CEncodedStreamReader<TChar, Chunk> reader(is, policy);
	std::basic_string<TChar> text;
	for (;;)
	{
		const auto r = reader.ReadChunk(text);
		++o.chunks;
		if (r == EncodedStreamReadResult::EndFile) { o.endFile = true; break; }
		if (r == EncodedStreamReadResult::DecodeError) { o.decodeError = true; break; }
		if (o.chunks > 100000) break;   // the step budget fires long before
	}
	o.detected = (o.chunks > 1 || !text.empty() || !o.endFile) ? static_cast<int>(reader.GetSourceUtfType()) : -1;
	o.decodedHex = HexOf(text);
	return o;
}

template <class TChar>
static ReadOutcome ReadWithChunk(std::istream& is, UtfEncodingErrorPolicy policy, uint32_t chunk)
{
	// 32, 64 and 256 are real template instantiations; the others go through the guarded run-time knob (H2)
	switch (chunk)
	{
	case 32: return ReadAll<TChar, 32>(is, policy);
	case 64: return ReadAll<TChar, 64>(is, policy);
	case 256: return ReadAll<TChar, 256>(is, policy);
	default:
	{
		BitSerializer::Convert::Utf::Verif::encodedChunkSize = chunk;
		ReadOutcome o = ReadAll<TChar, 256>(is, policy);
		BitSerializer::Convert::Utf::Verif::encodedChunkSize = 0x10000;
		return o;
	}
	}
}

static Outcome ReaderLeg(RunCtx& ctx, Outcome& out)
{
	Source& s = ctx.src;
	const int enc = static_cast<int>(s.draw(sim::L_CFG, 5));
	const bool bom = s.chance(sim::L_CFG, 1, 2);
	const int width = static_cast<int>(s.draw(sim::L_CFG, 3));     // 0 char, 1 char16_t, 2 char32_t
	static const uint32_t chunks[] = { 256, 32, 64, 36, 128, 40 };
	const uint32_t chunk = s.pick(sim::L_CFG, chunks);
	const bool skipPolicy = s.chance(sim::L_CFG, 1, 2);
	const UtfEncodingErrorPolicy policy = skipPolicy ? UtfEncodingErrorPolicy::Skip : UtfEncodingErrorPolicy::ThrowError;

	// text: 0..5 chunks of encoded bytes, multi-unit characters round the chunk boundary
	std::u32string text;
	{
		const uint32_t unit = enc == 0 ? 1 : (enc <= 2 ? 2 : 4);
		const uint32_t mode = s.draw(sim::L_DOC, 5);
		uint32_t nChars;
		if (mode == 4)
		{
			// short texts in which ASCII and non-ASCII characters alternate (detection without BOM has only the ASCII ones to go by)
			nChars = 0;
			const uint32_t n = 2 + s.draw(sim::L_DOC, 11);
			const uint32_t phase = s.draw(sim::L_DOC, 2);
			static const char32_t wide[] = { 0x416, 0x418, 0x4E16, 0x754C, 0x60A8, 0x3002, 0xE9, 0x20AC };
			for (uint32_t i = 0; i < n; ++i) text.push_back((i + phase) % 2 == 0 ? static_cast<char32_t>(U'a' + (i % 26)) : s.pick(sim::L_DOC, wide));
		}
		else if (mode == 0) nChars = s.draw(sim::L_DOC, 6);
		else if (mode == 1) nChars = s.draw(sim::L_DOC, 40);
		else nChars = (chunk * (1 + s.draw(sim::L_DOC, 5))) / unit + static_cast<uint32_t>(s.range(sim::L_DOC, -4, 4));
		if (nChars > 3000) nChars = 3000;
		const bool plain = s.chance(sim::L_DOC, 1, 2);
		for (uint32_t i = 0; i < nChars; ++i)
		{
			if (plain && !s.chance(sim::L_DOC, 1, 6)) text.push_back(U'a' + (i % 26));
			else text.push_back(GenCodePoint(s, sim::L_DOC, TextProfile::Any));
		}
		// stated precondition for BOM-less streams: the text begins with an ASCII character other than NUL
		if (!bom && !text.empty() && (text[0] >= 0x80 || text[0] == 0)) text[0] = U'T';
		// ... and contains no NUL: "a\0" in UTF-8 and "a" in UTF-16LE are the same bytes, no detector can tell them apart
		if (!bom) for (auto& ch : text) if (ch == 0) ch = U'0';
		// FF FE 00 00 is both the UTF-32LE BOM and the UTF-16LE BOM followed by U+0000: the first character is never NUL
		if (!text.empty() && text[0] == 0) text[0] = U'T';
	}
	std::string bytes = bom ? RefBom(enc) : std::string();
	std::vector<size_t> boundaries;    // byte offsets of character starts (and the end)
	for (char32_t c : text) { boundaries.push_back(bytes.size()); RefEncode(bytes, c, enc); }
	boundaries.push_back(bytes.size());
	const size_t dataStart = bom ? RefBom(enc).size() : 0;

	// EOF fault: the stream is cut at byte n (0 = no cut in 1 run of 3)
	size_t cut = bytes.size();
	if (!text.empty() && s.chance(sim::L_FAULT, 2, 3))
	{
		// never inside the BOM, and (without BOM) never before the first character is complete: detection needs it
		const size_t minCut = bom ? dataStart : boundaries[1];
		cut = minCut + s.draw(sim::L_FAULT, static_cast<uint32_t>(bytes.size() - minCut + 1));
	}
	size_t completeChars = 0;
	while (completeChars < text.size() && boundaries[completeChars + 1] <= cut) ++completeChars;
	const bool cutInsideChar = cut < bytes.size() && boundaries[completeChars] != cut;
	if (text.empty() && !bom) { ctx.count("empty_stream_without_bom"); return out; }   // nothing to detect: no claim

	InCfg c = DrawStreamCfg(s, sim::L_IO);
	sim::InFaults f;
	// 1 cut in 4 is a device error instead of an end of file: underflow throws at that byte, istream::read sets badbit WITHOUT eofbit
	// and delivers what came before. For the reader that is the same end of input (it tests eof() || fail()), so the oracle is the same.
	const bool devErr = cut < bytes.size() && s.chance(sim::L_FAULT, 1, 4);
	if (cut < bytes.size()) { if (devErr) f.failAt = cut; else f.eofAt = cut; }
	ctx.note(std::string("reader leg: enc=") + EncName(enc) + (bom ? "+bom" : "") + " target=" + (width == 0 ? "char" : width == 1 ? "char16_t" : "char32_t") + " chunk=" + std::to_string(chunk)
		+ " policy=" + (skipPolicy ? "skip" : "throw") + " chars=" + std::to_string(text.size()) + " bytes=" + std::to_string(bytes.size()) + " cut@" + std::to_string(cut) + (devErr ? " (device error, badbit only)" : "") + (cutInsideChar ? " (inside a character)" : "") + " stream=" + c.str());
	if (ctx.describe) ctx.note("bytes: " + sim::hex(bytes, 200));
	ctx.count(std::string("enc.") + EncName(enc) + (bom ? "+bom" : ""));
	ctx.count("encChunk." + std::to_string(chunk));
	if (cut < bytes.size()) ctx.count(devErr ? "fault.device_error" : "fault.eof");

	sim::SimIStreamBuf sb(bytes, c.seekable, c.delivery, f);
	sb.SetSeekBeyondFails(c.seekBeyondFails);
	std::istream is(&sb);
	sim::steps_begin(3000ull * (bytes.size() + 4096));
	sim::stream_call_budget(64 * (bytes.size() + 4096) * 8);
	ReadOutcome r;
	CallResult cr = Guarded([&]
	{
		if (width == 0) r = ReadWithChunk<char>(is, policy, chunk);
		else if (width == 1) r = ReadWithChunk<char16_t>(is, policy, chunk);
		else r = ReadWithChunk<char32_t>(is, policy, chunk);
	});
	sim::steps_end();
	const std::string tags = std::string("leg=reader enc=") + EncName(enc) + (bom ? " bom=1" : " bom=0") + " target=" + std::to_string(width) + " chunk=" + std::to_string(chunk) + (skipPolicy ? " policy=skip" : " policy=throw")
		+ (cut < bytes.size() ? (cutInsideChar ? " cut=inside" : " cut=boundary") : " cut=none") + (devErr ? " fault=device_error" : "");
	if (!cr.ok) return Violation("WRONG_EXCEPTION", tags, "the encoded stream reader threw " + cr.cat + " (" + cr.what + ")");
	out.nontrivial = bytes.size() > chunk || cutInsideChar;
	if (bytes.size() > chunk) sim::probe("text-longer-than-chunk");
	if (cutInsideChar) sim::probe("cut-inside-character");

	// expected output
	std::string expectHex;
	bool expectError = false;
	// UTF-8 into a char target is copied through undecoded (library design, and C12's own exclusion): the oracle there is
	// "the bytes before the cut"
	const bool passThrough = enc == 0 && width == 0;
	if (passThrough)
	{
		const size_t unit = enc == 0 ? 1 : enc == 1 ? 2 : 4;
		const size_t whole = ((cut - dataStart) / unit) * unit;
		HexAppend(expectHex, bytes.data() + dataStart, whole);
		if (whole != cut - dataStart)
		{
			if (skipPolicy)
			{
				if (width == 1) { const char16_t* m = BitSerializer::Convert::Utf::Detail::GetDefaultErrorMark<char16_t>(); std::u16string ms(m); HexAppend(expectHex, ms.data(), ms.size() * 2); }
				else { const char32_t* m = BitSerializer::Convert::Utf::Detail::GetDefaultErrorMark<char32_t>(); std::u32string ms(m); HexAppend(expectHex, ms.data(), ms.size() * 4); }
			}
			else expectError = true;
		}
	}
	else
	{
		auto build = [&](auto tag)
		{
			using TChar = decltype(tag);
			std::basic_string<TChar> e;
			for (size_t i = 0; i < completeChars; ++i) RefAppendTarget(e, text[i]);
			if (cutInsideChar)
			{
				if (skipPolicy) { const TChar* mark = BitSerializer::Convert::Utf::Detail::GetDefaultErrorMark<TChar>(); e.append(mark); }
				else expectError = true;
			}
			return HexOf(e);
		};
		expectHex = width == 0 ? build(char()) : width == 1 ? build(char16_t()) : build(char32_t());
	}
	if (devErr)
	{
		// Relaxed oracle after a device error (deliberately narrow): libstdc++'s istream::read() catches the exception, sets badbit and
		// leaves gcount at 0, so the bytes of the failing read() call are lost to the caller - the reader sees the stream end at some
		// V <= cut that only the completed reads determine. It may therefore lose text and may meet the end inside a character, but it
		// must stop, must not invent text, and must not report an error and a mark at once.
		if (!r.endFile && !r.decodeError) return Violation("HANG", tags + " what=no_end", "after a device error (badbit without eofbit) the reader reported neither EndFile nor DecodeError in " + std::to_string(r.chunks) + " calls of ReadChunk");
		if (r.decodeError && skipPolicy) return Violation("WRONG_VALUE", tags + " what=spurious_error", "DecodeError reported under the Skip policy");
		std::string base;   // the text of every character that is complete before the cut, in the target encoding
		std::string mark;
		if (passThrough) HexAppend(base, bytes.data() + dataStart, cut - dataStart);
		else
		{
			auto all = [&](auto tag)
			{
				using TChar = decltype(tag);
				std::basic_string<TChar> e;
				for (size_t i = 0; i < completeChars; ++i) RefAppendTarget(e, text[i]);
				std::basic_string<TChar> m(BitSerializer::Convert::Utf::Detail::GetDefaultErrorMark<TChar>());
				mark = HexOf(m);
				return HexOf(e);
			};
			base = width == 0 ? all(char()) : width == 1 ? all(char16_t()) : all(char32_t());
		}
		std::string got = r.decodedHex;
		if (base.compare(0, got.size(), got) != 0)
		{
			// Skip policy: one error mark may stand at the very end, where the visible input ended inside a character
			const bool marked = skipPolicy && !mark.empty() && got.size() >= mark.size() && got.compare(got.size() - mark.size(), mark.size(), mark) == 0
				&& base.compare(0, got.size() - mark.size(), got, 0, got.size() - mark.size()) == 0;
			if (!marked) return Violation("WRONG_VALUE", tags + " what=text", "text decoded before a device error is not a prefix of the original: " + DiffAt(base, got));
		}
		if (r.detected != -1 && r.detected != enc && !got.empty())
			return Violation("WRONG_VALUE", tags + " what=detection", std::string("detected ") + EncName(r.detected) + " for a stream written in " + EncName(enc));
		sim::probe("device-error-while-reading");
		return out;
	}
	if (r.detected != -1 && r.detected != enc)
		return Violation("WRONG_VALUE", tags + " what=detection", std::string("detected ") + EncName(r.detected) + " for a stream written in " + EncName(enc) + (bom ? " with BOM" : " without BOM") + " (first bytes " + sim::hex(bytes, 12) + ")");
	if (expectError)
	{
		if (!r.decodeError) return Violation("WRONG_VALUE", tags + " what=cut_not_reported", "the stream ends inside a character and the policy is ThrowError, but the reader did not report DecodeError (decoded " + std::to_string(r.decodedHex.size() / 2) + " bytes)");
		// what was decoded before the error must be a prefix of the text
		if (expectHex.compare(0, r.decodedHex.size(), r.decodedHex) != 0) return Violation("WRONG_VALUE", tags + " what=text", "text decoded before the error is not a prefix of the original: " + DiffAt(expectHex, r.decodedHex));
		return out;
	}
	if (r.decodeError) return Violation("WRONG_VALUE", tags + " what=spurious_error", "DecodeError reported for a well-formed stream" + std::string(cut < bytes.size() ? " cut on a character boundary" : ""));
	if (!r.endFile) return Violation("WRONG_VALUE", tags + " what=no_end", "the reader never reported EndFile");
	if (r.decodedHex != expectHex) return Violation("WRONG_VALUE", tags + " what=text", "decoded text differs: " + DiffAt(expectHex, r.decodedHex));
	return out;
}

static Outcome WriterLeg(RunCtx& ctx, Outcome& out)
{
	Source& s = ctx.src;
	const int enc = static_cast<int>(s.draw(sim::L_CFG, 5));
	const bool bom = s.chance(sim::L_CFG, 1, 2);
	const int width = static_cast<int>(s.draw(sim::L_CFG, 3));
	std::u32string text = GenText(s, sim::L_DOC, TextProfile::Any, 700);
	// 1 run in 8: a long text, so that single writes exceed every internal block size
	const bool longText = s.chance(sim::L_DOC, 1, 8);
	if (longText)
	{
		// 1500...6000 characters, dense in 2/3/4-byte characters in half of the cases: 4...20 KiB of UTF-8 in at most 3 writes
		const uint32_t n = 1500 + s.draw(sim::L_DOC, 4500);
		const bool dense = s.chance(sim::L_DOC, 1, 2);
		const uint32_t shift = s.draw(sim::L_DOC, 4);   // a few ASCII characters in front shift every later character against the block size
		text.assign(shift, U'a');
		for (uint32_t i = 0; i < n; ++i) text.push_back(dense || s.chance(sim::L_DOC, 1, 4) ? GenCodePoint(s, sim::L_DOC, TextProfile::Any) : static_cast<char32_t>(U'a' + (i % 26)));
	}
	const uint32_t parts = longText ? 1 + s.draw(sim::L_DOC, 3) : 1 + s.draw(sim::L_DOC, 8);
	std::vector<size_t> cuts;
	for (uint32_t i = 1; i < parts && !text.empty(); ++i) cuts.push_back(s.draw(sim::L_DOC, static_cast<uint32_t>(text.size() + 1)));
	std::sort(cuts.begin(), cuts.end());
	cuts.push_back(text.size());
	std::string expected = bom ? RefBom(enc) : std::string();
	for (char32_t c : text) RefEncode(expected, c, enc);
	static const uint32_t bufs[] = { 0, 1, 7, 4096 };
	const uint32_t buf = s.pick(sim::L_IO, bufs);
	ctx.note(std::string("writer leg: enc=") + EncName(enc) + (bom ? "+bom" : "") + " source width=" + std::to_string(width) + " chars=" + std::to_string(text.size()) + " writes=" + std::to_string(cuts.size()) + " outbuf=" + std::to_string(buf));
	ctx.count(std::string("enc.") + EncName(enc) + (bom ? "+bom" : ""));
	std::string file;
	sim::SimOStreamBuf sb(file, buf);
	std::ostream os(&sb);
	bool writeOk = true;
	// 1 run in 4: between two good writes the program hands over an ill-formed text (a valid prefix, then a truncated or invalid
	// sequence); the writer must refuse it and nothing of it may reach the file. (char source into UTF-8 is a byte copy: not refused.)
	const bool withRefused = s.chance(sim::L_FAULT, 1, 4) && !(width == 0 && enc == 0);
	const uint32_t refusedKind = s.draw(sim::L_FAULT, 2);
	const size_t refusedBefore = s.draw(sim::L_FAULT, static_cast<uint32_t>(cuts.size()));
	bool refusedAccepted = false;
	sim::steps_begin(3000ull * (expected.size() + 4096));
	CallResult cr = Guarded([&]
	{
		BitSerializer::Convert::Utf::CEncodedStreamWriter w(os, static_cast<UtfType>(enc), bom, UtfEncodingErrorPolicy::ThrowError);
		size_t from = 0;
		size_t writeNo = 0;
		for (size_t to : cuts)
		{
			if (withRefused && writeNo++ == refusedBefore)
			{
				using BitSerializer::Convert::Utf::UtfEncodingErrorCode;
				UtfEncodingErrorCode rc;
				if (width == 0) rc = w.Write(refusedKind ? std::string("row,\xD0\x96ok\xE4\xB8") : std::string("row,\xD0\x96ok\xFFtail"));
				else if (width == 1) { std::u16string b = u"row,\u0416ok"; b.push_back(static_cast<char16_t>(refusedKind ? 0xD800 : 0xDC00)); if (!refusedKind) b += u"tail"; rc = w.Write(b); }
				else { std::u32string b = U"row,\u0416ok"; b.push_back(static_cast<char32_t>(refusedKind ? 0x110000 : 0xD800)); b += U"tail"; rc = w.Write(b); }
				if (rc == UtfEncodingErrorCode::Success) refusedAccepted = true;
			}
			if (width == 0) { std::string part; for (size_t i = from; i < to; ++i) AppendUtf8(part, text[i]); writeOk &= w.Write(part) == BitSerializer::Convert::Utf::UtfEncodingErrorCode::Success; }
			else if (width == 1) { std::u16string part; for (size_t i = from; i < to; ++i) AppendUtf16(part, text[i]); writeOk &= w.Write(part) == BitSerializer::Convert::Utf::UtfEncodingErrorCode::Success; }
			else { std::u32string part(text.begin() + from, text.begin() + to); writeOk &= w.Write(part) == BitSerializer::Convert::Utf::UtfEncodingErrorCode::Success; }
			from = to;
		}
	});
	sim::steps_end();
	os.flush();
	const std::string tags = std::string("leg=writer enc=") + EncName(enc) + (bom ? " bom=1" : " bom=0") + " source=" + std::to_string(width);
	if (!cr.ok) return Violation("WRONG_EXCEPTION", tags, "the encoded stream writer threw " + cr.cat + " (" + cr.what + ")");
	if (!writeOk) return Violation("WRONG_VALUE", tags + " what=write_error", "Write() reported an encoding error for valid Unicode text");
	if (withRefused) { ctx.count("fault.refused_write"); sim::probe("refused-write-between-good-writes"); }
	// whether a given ill-formed text is refused at all belongs to the transcoding properties (not claimed here): when the writer
	// accepted it, what it wrote for it is not this leg's business and the byte comparison is skipped
	if (refusedAccepted) { ctx.count("illformed_text_accepted_by_writer"); return out; }
	if (file != expected) return Violation("WRONG_VALUE", tags + " what=bytes", "written bytes differ from the reference encoding: " + DiffAt(sim::hex(expected, 4096), sim::hex(file, 4096)));
	out.nontrivial = parts > 1 && text.size() > 64;
	return out;
}

static std::string JsonEscapeRef(const std::u32string& t, std::u32string& outDoc)
{
	outDoc = U"{\"v\":\"";
	for (char32_t c : t)
	{
		if (c == U'"') outDoc += U"\\\"";
		else if (c == U'\\') outDoc += U"\\\\";
		else if (c < 0x20) { char b[8]; snprintf(b, sizeof b, "\\u%04x", static_cast<unsigned>(c)); for (char* p = b; *p; ++p) outDoc.push_back(static_cast<char32_t>(*p)); }
		else outDoc.push_back(c);
	}
	outDoc += U"\"}";
	return std::string();
}

static Outcome ArchiveLeg(RunCtx& ctx, Outcome& out)
{
	Source& s = ctx.src;
	const int enc = static_cast<int>(s.draw(sim::L_CFG, 5));
	const bool bom = s.chance(sim::L_CFG, 1, 2);
	const int which = static_cast<int>(s.draw(sim::L_CFG, 3));    // 0 csv, 1 json, 2 xml
	const int archive = which == 0 ? A_CSV : which == 1 ? A_JSON : A_XML;
	const std::u32string text = GenText(s, sim::L_DOC, which == 2 ? TextProfile::Xml : (which == 0 ? TextProfile::Csv : TextProfile::Any), 400);
	const bool rootString = which == 1 && (bom || enc == 0) && s.chance(sim::L_CFG, 1, 3);
	std::u32string doc;
	if (which == 0)
	{
		doc = U"v\r\n\"";
		for (char32_t c : text) { if (c == U'"') doc.push_back(U'"'); doc.push_back(c); }
		doc += U"\"\r\n";
	}
	else if (which == 1)
	{
		JsonEscapeRef(text, doc);
		// 1 JSON document in 3 (with BOM or in UTF-8: see KF-JSON-BOMLESS-DETECT) is the bare string, a root value whose first characters need not be ASCII
		if (rootString) doc = doc.substr(5, doc.size() - 6);
	}
	else
	{
		doc = U"<?xml version=\"1.0\"?><root><v>";
		for (char32_t c : text)
		{
			if (c == U'<') doc += U"&lt;"; else if (c == U'&') doc += U"&amp;"; else if (c == U'>') doc += U"&gt;"; else doc.push_back(c);
		}
		doc += U"</v></root>";
	}
	// KF-JSON-BOMLESS-DETECT (owned by C01): RapidJSON needs two ASCII characters in front for BOM-less UTF-16/32: '{' and '"' are
	std::string bytes = bom ? RefBom(enc) : std::string();
	for (char32_t c : doc) RefEncode(bytes, c, enc);
	DynNode root(which == 0 ? K::Arr : rootString ? K::Str : K::Obj);
	DynNode v(K::Str);
	Key k; k.s = "v";
	if (which == 0) { DynNode row(K::Obj); row.keys.push_back(k); row.items.push_back(v); root.items.push_back(row); }
	else if (!rootString) { root.keys.push_back(k); root.items.push_back(v); }
	InCfg c = DrawStreamCfg(s, sim::L_IO);
	SerializationOptions o;
	ctx.note(std::string("archive leg: ") + ArchiveName(archive) + " enc=" + EncName(enc) + (bom ? "+bom" : "") + " chars=" + std::to_string(text.size()) + " stream=" + c.str());
	if (ctx.describe) ctx.note("bytes: " + sim::hex(bytes, 200));
	ctx.count(std::string("enc.") + EncName(enc) + (bom ? "+bom" : ""));
	ctx.count(std::string("archive.") + ArchiveName(archive));
	sim::steps_begin(3000ull * (bytes.size() + 4096));
	sim::stream_call_budget(64 * (bytes.size() + 4096) * 8);
	LoadInfo info;
	const CallResult r = LoadDynWith(GetOps(archive), root, bytes, o, c, {}, false, &info);
	sim::steps_end();
	const std::string tags = std::string("leg=archive archive=") + ArchiveName(archive) + " enc=" + EncName(enc) + (bom ? " bom=1" : " bom=0");
	if (!r.isStd) return Violation("WRONG_EXCEPTION", tags, "non-std exception");
	if (!r.ok) return Violation("WRONG_EXCEPTION", tags + " what=unloadable exc=" + r.cat, "a well-formed " + std::string(EncName(enc)) + " document failed to load: " + r.cat + " (" + r.what + ")");
	// the CSV table has exactly one row: a phantom row after the last line break is a loss-less-ness violation too
	if (which == 0 && (root.loadedCount != 1 || root.extra)) return Violation("WRONG_VALUE", tags + " what=rows", "the CSV document has one row, the loader saw " + std::to_string(root.loadedCount) + (root.extra ? "+more" : ""));
	const DynNode& got = which == 0 ? root.items[0].items[0] : rootString ? root : root.items[0];
	std::string expect = ToUtf8(text);
	if (got.s != expect) return Violation("WRONG_VALUE", tags + " what=text", "loaded string differs: " + DiffAt(sim::hex(expect, 4096), sim::hex(got.s, 4096)));
	out.nontrivial = enc != 0 && info.underflows >= 2;

	// the way back: the archive writes the same text to a stream in the same encoding (with and without pretty-printing, with the
	// BOM when the document had one or when it is needed for detection), and what it wrote is loaded again
	{
		SerializationOptions so;
		so.streamOptions.encoding = static_cast<UtfType>(enc);
		so.streamOptions.writeBom = bom;
		const bool pretty = which != 0 && s.chance(sim::L_CFG, 1, 2);
		if (pretty) { so.formatOptions.enableFormat = true; so.formatOptions.paddingChar = s.chance(sim::L_CFG, 1, 2) ? ' ' : '\t'; so.formatOptions.paddingCharNum = static_cast<uint16_t>(1 + s.draw(sim::L_CFG, 3)); }
		DynNode doc = Skeleton(root);
		(which == 0 ? doc.items[0].items[0] : rootString ? doc : doc.items[0]).s = expect;
		std::string written;
		OutCfg oc; oc.stream = true; static const uint32_t bufs[] = { 0, 1, 7, 4096 }; oc.bufSize = s.pick(sim::L_IO, bufs);
		sim::steps_begin(3000ull * (bytes.size() + 65536));
		const CallResult sv = SaveDynWith(GetOps(archive), doc, written, so, oc);
		sim::steps_end();
		const std::string stags = tags + (pretty ? " format=1" : " format=0") + " dir=save";
		if (!sv.ok) return Violation("WRONG_EXCEPTION", stags + " exc=" + sv.cat, "saving the text to a " + std::string(EncName(enc)) + " stream failed: " + sv.cat + " (" + sv.what + ")");
		if (bom && written.compare(0, RefBom(enc).size(), RefBom(enc)) != 0) return Violation("WRONG_VALUE", stags + " what=bom", "the written document does not start with the BOM of " + std::string(EncName(enc)) + ": " + sim::hex(written, 16));
		DynNode back = Skeleton(root);
		sim::steps_begin(3000ull * (written.size() + 4096));
		InCfg backCfg;
		backCfg.stream = true;
		const CallResult rl = LoadDynWith(GetOps(archive), back, written, o, backCfg);
		sim::steps_end();
		if (!rl.ok) return Violation("WRONG_EXCEPTION", stags + " what=unloadable exc=" + rl.cat, "what the archive wrote to the " + std::string(EncName(enc)) + " stream cannot be loaded: " + rl.cat + " (" + rl.what + ") bytes=" + sim::hex(written, 120));
		const DynNode& got2 = which == 0 ? back.items[0].items[0] : rootString ? back : back.items[0];
		if (got2.s != expect) return Violation("WRONG_VALUE", stags + " what=text", "text written to the stream and loaded again differs: " + DiffAt(sim::hex(expect, 4096), sim::hex(got2.s, 4096)));
		sim::probe("archive-save-to-encoded-stream");
	}
	return out;
}

// DetectEncoding(std::istream&, skipBom): detection on a stream that is not at position 0, and the position it leaves behind
static Outcome DetectLeg(RunCtx& ctx, Outcome& out)
{
	Source& s = ctx.src;
	const int enc = static_cast<int>(s.draw(sim::L_CFG, 5));
	const bool bom = s.chance(sim::L_CFG, 1, 2);
	const bool skipBom = s.chance(sim::L_CFG, 1, 2);
	const uint32_t prefix = s.draw(sim::L_DOC, 3) == 0 ? 0 : s.draw(sim::L_DOC, 300);
	std::u32string text = GenText(s, sim::L_DOC, TextProfile::Any, 300);
	if (text.empty()) text = U"T";
	if (text[0] >= 0x80 || text[0] == 0) text[0] = U'T';
	for (auto& ch : text) if (ch == 0) ch = U'0';
	std::string bytes(prefix, '#');
	const std::string bomBytes = bom ? RefBom(enc) : std::string();
	bytes += bomBytes;
	for (char32_t c : text) RefEncode(bytes, c, enc);
	InCfg c = DrawStreamCfg(s, sim::L_IO);
	c.seekable = true;
	ctx.note(std::string("detect leg: enc=") + EncName(enc) + (bom ? "+bom" : "") + " skipBom=" + (skipBom ? "1" : "0") + " stream position=" + std::to_string(prefix) + " bytes=" + std::to_string(bytes.size()) + " stream=" + c.str());
	ctx.count("leg.detect");
	sim::SimIStreamBuf sb(bytes, true, c.delivery);
	sb.SetSeekBeyondFails(c.seekBeyondFails);
	std::istream is(&sb);
	is.seekg(static_cast<std::streamoff>(prefix));
	int detected = -1;
	sim::steps_begin(3000ull * (bytes.size() + 4096));
	CallResult cr = Guarded([&] { detected = static_cast<int>(BitSerializer::Convert::Utf::DetectEncoding(is, skipBom)); });
	sim::steps_end();
	const std::string tags = std::string("leg=detect enc=") + EncName(enc) + (bom ? " bom=1" : " bom=0") + (skipBom ? " skipbom=1" : " skipbom=0");
	if (!cr.ok) return Violation("WRONG_EXCEPTION", tags, "DetectEncoding threw " + cr.cat + " (" + cr.what + ")");
	out.nontrivial = prefix != 0;
	if (detected != enc) return Violation("WRONG_VALUE", tags + " what=detection", std::string("detected ") + (detected >= 0 && detected < 5 ? EncName(detected) : "?") + " for a stream written in " + EncName(enc));
	const size_t expectPos = prefix + (bom && skipBom ? bomBytes.size() : 0);
	const std::streamoff pos = is.tellg();
	if (is.fail() || pos != static_cast<std::streamoff>(expectPos))
		return Violation("WRONG_VALUE", tags + " what=position", "after DetectEncoding the stream is at " + std::to_string(static_cast<long long>(pos)) + (is.fail() ? " (failed)" : "") + ", expected " + std::to_string(expectPos));
	return out;
}

Outcome RunC13(RunCtx& ctx)
{
	Outcome out;
	const uint32_t leg = ctx.src.draw(sim::L_CFG, 9);
	if (leg == 8) { out.cfgKey = "detect"; Outcome v = DetectLeg(ctx, out); return v.violation ? v : out; }
	if (leg <= 4) { out.cfgKey = "reader"; Outcome v = ReaderLeg(ctx, out); return v.violation ? v : out; }
	if (leg <= 5) { out.cfgKey = "writer"; Outcome v = WriterLeg(ctx, out); return v.violation ? v : out; }
	out.cfgKey = "archive";
	Outcome v = ArchiveLeg(ctx, out);
	return v.violation ? v : out;
}

} // namespace hz
