// Generation and canonical representation of Zoo values.
#pragma once
#include "common.h"

namespace hz {

struct ZooGenCfg
{
	int archive = A_MSGPACK;
	uint32_t maxLen = 12;
	int csvRoot = -1;            // -1: drawn
	bool allowEmpty = true;      // KF-XML-EMPTY-CONTAINER: false for XML in 63 of 64 runs
	bool smartPointersSet = false;
	bool nonEmptyStrings = false;
	int jumboMember = -1;        // >= 0: this sequence member gets a size around the library's estimate cap (1024); see DrawJumbo
	uint32_t altChronoOneIn = 0;  // > 0 (text archives, Skip policies only): 1 value in N writes its chrono wrappers as arbitrary texts
	uint32_t altDocOneIn = 0;    // > 0: 1 generated value in N is written by "another version of the class" (null elements in sets)
	uint32_t jumboOneIn = 1;     // the member is made big in 1 of N generated values (histories mix big and small states)
};

// sizes on both sides of 1024 = CMsgPackScopeBase::MaxEstimatedSize, the point where a container can no longer trust the announced size
constexpr int kJumboMembers = 14;
inline int DrawJumbo(Source& s, Lane l, uint32_t oneIn) { return s.chance(l, 1, oneIn) ? static_cast<int>(s.draw(l, kJumboMembers)) : -1; }
inline const char* JumboName(int m) { static const char* n[] = { "vec", "deq", "fwd", "val", "que", "stk", "pq", "vbool", "vo", "bin", "vv", "lst", "set", "vobj" }; return m >= 0 && m < kJumboMembers ? n[m] : "none"; }

inline void MakeJumbo(Source& s, Lane l, Zoo& z, int member)
{
	static const uint32_t sizes[] = { 1023, 1024, 1025, 1026, 1100, 2049 };
	const uint32_t n = s.pick(l, sizes);
	const int32_t base = static_cast<int32_t>(s.draw(l, 1000));
	auto v = [&](uint32_t i) { return base + static_cast<int32_t>(i); };
	switch (member)
	{
	case 0: z.vec.clear(); for (uint32_t i = 0; i < n; ++i) z.vec.push_back(v(i)); break;
	case 1: z.deq.clear(); for (uint32_t i = 0; i < n; ++i) z.deq.push_back(v(i)); break;
	case 2: z.fwd.clear(); for (uint32_t i = 0; i < n; ++i) z.fwd.push_front(v(i)); break;
	case 3: z.val.resize(n); for (uint32_t i = 0; i < n; ++i) z.val[i] = v(i); break;
	case 4: z.que = {}; for (uint32_t i = 0; i < n; ++i) z.que.push(v(i)); break;
	case 5: z.stk = {}; for (uint32_t i = 0; i < n; ++i) z.stk.push(v(i)); break;
	case 6: z.pq = {}; for (uint32_t i = 0; i < n; ++i) z.pq.push(v(i)); break;
	case 7: z.vbool.clear(); for (uint32_t i = 0; i < n; ++i) z.vbool.push_back(((i * 2654435761u + static_cast<uint32_t>(base)) >> 7) & 1); break;
	case 8: z.vo.clear(); for (uint32_t i = 0; i < n; ++i) { if (i % 5 == 3) z.vo.emplace_back(std::nullopt); else z.vo.emplace_back(v(i)); } break;
	case 9: z.bin.clear(); for (uint32_t i = 0; i < n; ++i) z.bin.push_back(static_cast<unsigned char>(v(i))); break;
	case 10: { std::vector<int32_t> in; for (uint32_t i = 0; i < n; ++i) in.push_back(v(i)); z.vv.insert(z.vv.begin(), in); break; }
	case 11: z.lst.clear(); for (uint32_t i = 0; i < n; ++i) z.lst.push_back("s" + std::to_string(v(i))); break;
	case 12: z.set.clear(); for (uint32_t i = 0; i < n; ++i) z.set.insert(v(i)); break;
	default: z.vobj.clear(); for (uint32_t i = 0; i < n; ++i) { Inner in; in.a = v(i); in.b = "o" + std::to_string(i % 7); z.vobj.push_back(in); } break;
	}
}

inline uint32_t ZLen(Source& s, Lane l, const ZooGenCfg& g)
{
	// sizes 0..k with emphasis on 0, 1, 2
	uint32_t n = s.draw(l, 6);
	if (n == 5) n = 5 + s.draw(l, g.maxLen);
	if (!g.allowEmpty && n == 0) n = 1;
	return n;
}
inline int32_t ZInt(Source& s, Lane l) { return static_cast<int32_t>(GenSigned(s, l, 32)); }
inline std::string ZStr(Source& s, Lane l, const ZooGenCfg& g)
{
	std::string r = ToUtf8(GenText(s, l, ProfileFor(g.archive), 10));
	if (g.nonEmptyStrings && r.empty()) r = "n";
	// text formats load "" as "not loaded"; inside containers of strings that is still an empty string, fine
	return r;
}
inline std::string ZKey(Source& s, Lane l, const ZooGenCfg& g, size_t i)
{
	return GenKeyName(s, l, g.archive == A_CSV ? A_JSON : g.archive, i);
}

inline void GenZoo(Source& s, Lane l, Zoo& z, const ZooGenCfg& g)
{
	uint32_t n;
	z.skipIntKeyMaps = g.archive == A_XML;
	n = ZLen(s, l, g); for (uint32_t i = 0; i < n; ++i) z.vec.push_back(ZInt(s, l));
	n = ZLen(s, l, g); for (uint32_t i = 0; i < n; ++i) z.vbool.push_back(s.chance(l, 1, 2));
	n = ZLen(s, l, g); for (uint32_t i = 0; i < n; ++i) z.deq.push_back(ZInt(s, l));
	n = ZLen(s, l, g); for (uint32_t i = 0; i < n; ++i) z.lst.push_back(ZStr(s, l, g));
	n = ZLen(s, l, g); for (uint32_t i = 0; i < n; ++i) z.fwd.push_front(ZInt(s, l));
	for (auto& x : z.arr) x = ZInt(s, l);
	n = ZLen(s, l, g); z.val.resize(n); for (uint32_t i = 0; i < n; ++i) z.val[i] = ZInt(s, l);
	n = ZLen(s, l, g); for (uint32_t i = 0; i < n; ++i) z.que.push(ZInt(s, l));
	n = ZLen(s, l, g); for (uint32_t i = 0; i < n; ++i) z.stk.push(ZInt(s, l));
	n = ZLen(s, l, g); for (uint32_t i = 0; i < n; ++i) z.pq.push(ZInt(s, l));
	n = ZLen(s, l, g); for (uint32_t i = 0; i < n; ++i) z.set.insert(static_cast<int32_t>(s.draw(l, 50)));
	if (!g.allowEmpty && z.set.empty()) z.set.insert(1);
	n = ZLen(s, l, g); for (uint32_t i = 0; i < n; ++i) z.mset.insert(static_cast<int32_t>(s.draw(l, 5)));
	n = ZLen(s, l, g); for (uint32_t i = 0; i < n; ++i) z.uset.insert(ZKey(s, l, g, i));
	n = ZLen(s, l, g); for (uint32_t i = 0; i < n; ++i) z.umset.insert(static_cast<int32_t>(s.draw(l, 5)));
	n = ZLen(s, l, g); for (uint32_t i = 0; i < n; ++i) z.map[ZKey(s, l, g, i)] = ZInt(s, l);
	n = ZLen(s, l, g); for (uint32_t i = 0; i < n && !z.skipIntKeyMaps; ++i) z.imap[static_cast<int32_t>(i * 3) - 4] = ZStr(s, l, g);
	n = ZLen(s, l, g); for (uint32_t i = 0; i < n; ++i) z.mmap.emplace(static_cast<int32_t>(s.draw(l, 4)), ZInt(s, l));
	n = ZLen(s, l, g); for (uint32_t i = 0; i < n; ++i) z.umap[ZKey(s, l, g, i)] = ZInt(s, l);
	n = ZLen(s, l, g); for (uint32_t i = 0; i < n; ++i) z.ummap.emplace(static_cast<int32_t>(s.draw(l, 4)), ZInt(s, l));
	n = ZLen(s, l, g); for (uint32_t i = 0; i < n; ++i) z.mapOnlyExist["m" + std::to_string(s.draw(l, 8))] = ZInt(s, l);
	if (!g.allowEmpty && z.mapOnlyExist.empty()) z.mapOnlyExist["m0"] = 1;
	n = ZLen(s, l, g); for (uint32_t i = 0; i < n; ++i) z.mapUpdate["m" + std::to_string(s.draw(l, 8))] = ZInt(s, l);
	if (!g.allowEmpty && z.mapUpdate.empty()) z.mapUpdate["m0"] = 1;
	n = ZLen(s, l, g); for (uint32_t i = 0; i < n; ++i) { if (s.chance(l, 1, 3)) z.mapUpdateOpt["m" + std::to_string(s.draw(l, 8))] = std::nullopt; else z.mapUpdateOpt["m" + std::to_string(s.draw(l, 8))] = ZInt(s, l); }
	if (!g.allowEmpty && z.mapUpdateOpt.empty()) z.mapUpdateOpt["m0"] = 1;
	if (s.chance(l, 1, 2)) z.opt = ZInt(s, l);
	if (s.chance(l, 1, 2)) z.optStr = ZStr(s, l, g) + "x";
	if (s.chance(l, 1, 2)) z.uptr = std::make_unique<int32_t>(ZInt(s, l));
	if (s.chance(l, 1, 2)) z.sptr = std::make_shared<std::string>(ZStr(s, l, g) + "y");
	if (s.chance(l, 1, 2)) { z.uobj = std::make_unique<Inner>(); z.uobj->a = ZInt(s, l); z.uobj->b = ZStr(s, l, g); }
	z.baseId = ZInt(s, l);
	z.baseName = ZStr(s, l, g);
	z.color = static_cast<Color>(s.draw(l, 3));
	n = s.draw(l, 4); for (uint32_t i = 0; i < n; ++i) z.emap[static_cast<Color>(s.draw(l, 3))] = ZInt(s, l);
	if (!g.allowEmpty && z.emap.empty()) z.emap[Color::Green] = 1;
	z.dur = std::chrono::seconds(GenSigned(s, l, 40));
	z.durMs = std::chrono::milliseconds(GenSigned(s, l, 44));
	{
		// time points: around the epoch, before it, with and without sub-second parts
		const bool corner = s.chance(l, 1, 6);
		const int64_t secs = corner ? CalendarCorner(s, l, false) : GenSigned(s, l, 33);   // system_clock::time_point counts nanoseconds in 64 bits: about +-292 years
		const int64_t sub = static_cast<int64_t>(s.draw(l, 3) == 0 ? 0 : s.draw(l, 1000000000));
		z.tp = std::chrono::system_clock::time_point(std::chrono::duration_cast<std::chrono::system_clock::duration>(std::chrono::seconds(secs) + std::chrono::nanoseconds(sub)));
		const int64_t secsMs = corner ? CalendarCorner(s, l, true) : secs;
		z.tpMs = std::chrono::time_point<std::chrono::system_clock, std::chrono::milliseconds>(std::chrono::milliseconds(secsMs * 1000 + static_cast<int64_t>(s.draw(l, 1000))));
	}
	z.bits = std::bitset<8>(s.draw(l, 256));
	z.tup = std::make_tuple(ZInt(s, l), ZStr(s, l, g), s.chance(l, 1, 2));
	z.pr = std::make_pair(ZInt(s, l), ZStr(s, l, g));
	z.atom.store(ZInt(s, l));
	z.s = ZStr(s, l, g);
	z.s16 = ToUtf16(GenText(s, l, ProfileFor(g.archive), 10));
	z.s32 = GenText(s, l, ProfileFor(g.archive), 10);
	{ auto t = GenText(s, l, ProfileFor(g.archive), 10); z.ws.assign(t.begin(), t.end()); }
	if (g.nonEmptyStrings) { if (z.s16.empty()) z.s16 = u"n"; if (z.s32.empty()) z.s32 = U"n"; if (z.ws.empty()) z.ws = L"n"; }
	n = ZLen(s, l, g);
	for (uint32_t i = 0; i < n; ++i)
	{
		std::vector<int32_t> inner;
		uint32_t m = ZLen(s, l, g);
		for (uint32_t k = 0; k < m; ++k) inner.push_back(ZInt(s, l));
		z.vv.push_back(inner);
	}
	n = ZLen(s, l, g);
	for (uint32_t i = 0; i < n; ++i)
	{
		std::vector<int32_t> inner;
		uint32_t m = ZLen(s, l, g);
		for (uint32_t k = 0; k < m; ++k) inner.push_back(ZInt(s, l));
		z.mv[ZKey(s, l, g, i)] = inner;
	}
	n = ZLen(s, l, g);
	for (uint32_t i = 0; i < n; ++i) { if (s.chance(l, 1, 3)) z.vo.emplace_back(std::nullopt); else z.vo.emplace_back(ZInt(s, l)); }
	n = ZLen(s, l, g);
	for (uint32_t i = 0; i < n; ++i) { Inner in; in.a = ZInt(s, l); in.b = ZStr(s, l, g); z.vobj.push_back(in); }
	n = ZLen(s, l, g); for (uint32_t i = 0; i < n; ++i) z.bin.push_back(static_cast<unsigned char>(s.draw(l, 256)));
	if (g.archive == A_XML)
	{
		z.attrI = ZInt(s, l);
		z.attrU64 = GenUnsigned(s, l, 64);
		z.attrI64 = GenSigned(s, l, 64);
		z.attrB = s.chance(l, 1, 2);
		z.attrF = static_cast<double>(s.range(l, -100000, 100000)) / 8.0;
		z.attrS = ZStr(s, l, g);
	}
	auto genInner = [&](Inner& in) { in.a = ZInt(s, l); in.b = ZStr(s, l, g); };
	n = ZLen(s, l, g); for (uint32_t i = 0; i < n; ++i) { if (s.chance(l, 1, 4)) z.voObj.emplace_back(std::nullopt); else { Inner in; genInner(in); z.voObj.emplace_back(in); } }
	n = ZLen(s, l, g); for (uint32_t i = 0; i < n; ++i) { if (s.chance(l, 1, 4)) z.vuObj.emplace_back(nullptr); else { auto p = std::make_unique<Inner>(); genInner(*p); z.vuObj.push_back(std::move(p)); } }
	n = ZLen(s, l, g); for (uint32_t i = 0; i < n; ++i) { if (s.chance(l, 1, 4)) z.vsObj.emplace_back(nullptr); else { auto p = std::make_shared<Inner>(); genInner(*p); z.vsObj.push_back(std::move(p)); } }
	n = ZLen(s, l, g); for (uint32_t i = 0; i < n; ++i) z.vtup.emplace_back(ZInt(s, l), ZStr(s, l, g));
	n = ZLen(s, l, g);
	for (uint32_t i = 0; i < n; ++i)
	{
		Row r;
		r.id = ZInt(s, l);
		r.name = ToUtf8(GenText(s, l, g.archive == A_XML ? TextProfile::Xml : TextProfile::Csv, 12));
		r.score = static_cast<double>(s.range(l, -1000, 1000)) / 4.0;
		r.flag = s.chance(l, 1, 2);
		if (s.chance(l, 1, 2)) r.opt = ZInt(s, l);
		r.wide = ToUtf16(GenText(s, l, g.archive == A_XML ? TextProfile::Xml : TextProfile::Csv, 8));
		r.color = static_cast<Color>(s.draw(l, 3));
		r.when = std::chrono::time_point<std::chrono::system_clock, std::chrono::seconds>(std::chrono::seconds(s.chance(l, 1, 6) ? CalendarCorner(s, l, true) : GenSigned(s, l, 34)));
		if (g.nonEmptyStrings) { if (r.name.empty()) r.name = "n"; if (r.wide.empty()) r.wide = u"n"; }
		z.rows.push_back(r);
	}
	z.lastTup = std::make_tuple(ZInt(s, l), ZStr(s, l, g) + "-last");
	if (s.chance(l, 1, 2)) z.optDur = std::chrono::seconds(GenSigned(s, l, 40));
	if (s.chance(l, 1, 2)) z.uDur = std::make_unique<std::chrono::seconds>(GenSigned(s, l, 40));
	if (g.altChronoOneIn && (g.archive == A_JSON || g.archive == A_XML) && s.chance(l, 1, g.altChronoOneIn))
	{
		z.altChronoDoc = true;
		static const char* const texts[] = { "PT90S", "P106751991167301D", "-P106751991167301D", "PT99999999999999999999999H", "bogus", "P1Y", "PT1.5S", "2000-01-01T00:00:00Z" };
		if (s.chance(l, 2, 3)) z.optDurAlt = s.pick(l, texts);
		if (s.chance(l, 2, 3)) z.uDurAlt = s.pick(l, texts);
	}
	if (g.altDocOneIn && g.archive != A_CSV && s.chance(l, 1, g.altDocOneIn))
	{
		z.altSetDoc = true;
		for (auto& x : z.uset) { z.usetAlt.emplace_back(x); if (s.chance(l, 1, 3)) z.usetAlt.emplace_back(std::nullopt); }
		if (z.usetAlt.empty() || s.chance(l, 1, 3)) z.usetAlt.insert(z.usetAlt.begin(), std::nullopt);
		for (auto x : z.mset) { z.msetAlt.emplace_back(x); if (s.chance(l, 1, 3)) z.msetAlt.emplace_back(std::nullopt); }
		for (size_t i = 0; i < z.val.size(); ++i) { if (s.chance(l, 1, 3)) z.valAlt.emplace_back(std::nullopt); else z.valAlt.emplace_back(z.val[i]); }
		// objects inside a sequence container whose document lacks a member (elements are not fields: a reused element must not keep it)
		for (auto& in : z.vobj) in.omitB = s.chance(l, 1, 2);
		for (auto& o : z.voObj) if (o) o->omitB = s.chance(l, 1, 2);
		for (auto& p : z.vuObj) if (p) p->omitB = s.chance(l, 1, 2);
		for (auto& p : z.vsObj) if (p) p->omitB = s.chance(l, 1, 2);
		for (auto& t : z.vtup)
		{
			std::optional<int32_t> a = std::get<0>(t);
			std::optional<std::string> b = std::get<1>(t);
			const uint32_t w = s.draw(l, 4);
			if (w == 1) a.reset(); else if (w == 2) b.reset();
			z.vtupAlt.emplace_back(a, b);
		}
		if (z.msetAlt.empty() || s.chance(l, 1, 3)) z.msetAlt.emplace_back(std::nullopt);
	}
	if (g.jumboMember >= 0 && g.archive != A_CSV && s.chance(l, 1, g.jumboOneIn)) MakeJumbo(s, l, z, g.jumboMember);
	z.csvRoot = g.csvRoot >= 0 ? g.csvRoot : (g.archive == A_CSV ? static_cast<int>(s.draw(l, 4)) : 0);
	if (z.csvRoot == 1) z.rowsList.assign(z.rows.begin(), z.rows.end());
	else if (z.csvRoot == 2) z.rowsDeque.assign(z.rows.begin(), z.rows.end());
	else if (z.csvRoot == 3) z.rowsFwd.assign(z.rows.begin(), z.rows.end());
}

// KF-CSV-EMPTY-TABLE: gives the CSV root one (default) row
inline void EnsureCsvRow(Zoo& z)
{
	if (!z.rows.empty()) return;
	z.rows.emplace_back();
	if (z.csvRoot == 1) z.rowsList.emplace_back();
	else if (z.csvRoot == 2) z.rowsDeque.emplace_back();
	else if (z.csvRoot == 3) z.rowsFwd.emplace_front();
}

template <class C>
std::string SeqRepr(const C& c)
{
	std::string r = "[";
	for (const auto& x : c) { r += std::to_string(x); r.push_back(','); }
	return r + "]";
}
inline std::string HexStr(const std::string& s) { std::string r; HexAppend(r, s.data(), s.size()); return r; }

inline std::string RowRepr(const Row& r)
{
	std::string s = "{" + std::to_string(r.id) + "," + HexStr(r.name) + ",";
	HexAppend(s, &r.score, 8);
	s += r.flag ? ",1," : ",0,";
	s += r.opt ? std::to_string(*r.opt) : "null";
	s += ",";
	HexAppend(s, r.wide.data(), r.wide.size() * 2);
	s += "," + std::to_string(static_cast<int>(r.color)) + "," + std::to_string(r.when.time_since_epoch().count());
	return s + "}";
}

// Canonical text of a Zoo, one "name=value;" per member (unordered containers are sorted)
inline std::map<std::string, std::string> ZooFields(const Zoo& z, bool csv)
{
	std::map<std::string, std::string> f;
	std::string rows = "[";
	if (csv && z.csvRoot == 1) { for (auto& r : z.rowsList) rows += RowRepr(r) + ","; }
	else if (csv && z.csvRoot == 2) { for (auto& r : z.rowsDeque) rows += RowRepr(r) + ","; }
	else if (csv && z.csvRoot == 3) { for (auto& r : z.rowsFwd) rows += RowRepr(r) + ","; }
	else { for (auto& r : z.rows) rows += RowRepr(r) + ","; }
	f["rows"] = rows + "]";
	if (csv) return f;
	f["base"] = std::to_string(z.baseId) + "/" + HexStr(z.baseName);
	f["color"] = std::to_string(static_cast<int>(z.color));
	{ std::string r = "{"; for (auto& kv : z.emap) r += std::to_string(static_cast<int>(kv.first)) + ":" + std::to_string(kv.second) + ","; f["emap"] = r + "}"; }
	f["dur"] = std::to_string(z.dur.count());
	f["durMs"] = std::to_string(z.durMs.count());
	f["tp"] = std::to_string(z.tp.time_since_epoch().count());
	f["tpMs"] = std::to_string(z.tpMs.time_since_epoch().count());
	f["vec"] = SeqRepr(z.vec);
	{ std::string r = "["; for (bool b : z.vbool) r += b ? "1," : "0,"; f["vbool"] = r + "]"; }
	f["deq"] = SeqRepr(z.deq);
	{ std::string r = "["; for (auto& x : z.lst) r += HexStr(x) + ","; f["lst"] = r + "]"; }
	f["fwd"] = SeqRepr(z.fwd);
	f["arr"] = SeqRepr(z.arr);
	{ std::string r = "["; for (size_t i = 0; i < z.val.size(); ++i) r += std::to_string(z.val[i]) + ","; f["val"] = r + "]"; }
	f["que"] = SeqRepr(BitSerializer::Detail::GetBaseContainer(z.que));
	f["stk"] = SeqRepr(BitSerializer::Detail::GetBaseContainer(z.stk));
	{ auto c = BitSerializer::Detail::GetBaseContainer(z.pq); std::sort(c.begin(), c.end()); f["pq"] = SeqRepr(c); }
	f["set"] = SeqRepr(z.set);
	f["mset"] = SeqRepr(z.mset);
	{ std::vector<std::string> v(z.uset.begin(), z.uset.end()); std::sort(v.begin(), v.end()); std::string r = "["; for (auto& x : v) r += HexStr(x) + ","; f["uset"] = r + "]"; }
	{ std::vector<int32_t> v(z.umset.begin(), z.umset.end()); std::sort(v.begin(), v.end()); f["umset"] = SeqRepr(v); }
	auto mapRepr = [](const auto& m) { std::string r = "{"; for (auto& kv : m) r += HexStr(kv.first) + ":" + std::to_string(kv.second) + ","; return r + "}"; };
	f["map"] = mapRepr(z.map);
	{ std::string r = "{"; for (auto& kv : z.imap) r += std::to_string(kv.first) + ":" + HexStr(kv.second) + ","; f["imap"] = r + "}"; }
	// (an ordered multimap keeps equal keys in insertion order and operator== compares the sequences: the order is part of the value)
	{ std::string r = "{"; for (auto& kv : z.mmap) r += std::to_string(kv.first) + ":" + std::to_string(kv.second) + ","; f["mmap"] = r + "}"; }
	{ std::map<std::string, int32_t> m(z.umap.begin(), z.umap.end()); f["umap"] = mapRepr(m); }
	{ std::vector<std::pair<int32_t, int32_t>> v(z.ummap.begin(), z.ummap.end()); std::sort(v.begin(), v.end()); std::string r = "{"; for (auto& kv : v) r += std::to_string(kv.first) + ":" + std::to_string(kv.second) + ","; f["ummap"] = r + "}"; }
	f["mapOnlyExist"] = mapRepr(z.mapOnlyExist);
	f["mapUpdate"] = mapRepr(z.mapUpdate);
	{ std::string r = "{"; for (auto& kv : z.mapUpdateOpt) r += HexStr(kv.first) + ":" + (kv.second ? std::to_string(*kv.second) : std::string("null")) + ","; f["mapUpdateOpt"] = r + "}"; }
	f["opt"] = z.opt ? std::to_string(*z.opt) : "null";
	f["optStr"] = z.optStr ? HexStr(*z.optStr) : "null";
	f["uptr"] = z.uptr ? std::to_string(*z.uptr) : "null";
	f["sptr"] = z.sptr ? HexStr(*z.sptr) : "null";
	f["uobj"] = z.uobj ? std::to_string(z.uobj->a) + "/" + HexStr(z.uobj->b) : "null";
	f["bits"] = z.bits.to_string();
	f["tup"] = std::to_string(std::get<0>(z.tup)) + "/" + HexStr(std::get<1>(z.tup)) + "/" + (std::get<2>(z.tup) ? "1" : "0");
	f["pr"] = std::to_string(z.pr.first) + "/" + HexStr(z.pr.second);
	f["atom"] = std::to_string(z.atom.load());
	f["s"] = HexStr(z.s);
	{ std::string r; HexAppend(r, z.s16.data(), z.s16.size() * 2); f["s16"] = r; }
	{ std::string r; HexAppend(r, z.s32.data(), z.s32.size() * 4); f["s32"] = r; }
	{ std::string r; HexAppend(r, z.ws.data(), z.ws.size() * sizeof(wchar_t)); f["ws"] = r; }
	{ std::string r = "["; for (auto& v : z.vv) r += SeqRepr(v) + ","; f["vv"] = r + "]"; }
	{ std::string r = "{"; for (auto& kv : z.mv) r += HexStr(kv.first) + ":" + SeqRepr(kv.second) + ","; f["mv"] = r + "}"; }
	{ std::string r = "["; for (auto& o : z.vo) r += (o ? std::to_string(*o) : std::string("null")) + ","; f["vo"] = r + "]"; }
	{ std::string r = "["; for (auto& o : z.vobj) r += std::to_string(o.a) + "/" + HexStr(o.b) + ","; f["vobj"] = r + "]"; }
	{ std::string r; HexAppend(r, z.bin.data(), z.bin.size()); f["bin"] = r; }
	{ std::string r = std::to_string(z.attrI) + "/" + std::to_string(z.attrU64) + "/" + std::to_string(z.attrI64) + "/" + (z.attrB ? "1" : "0") + "/"; HexAppend(r, &z.attrF, 8); f["attrs"] = r + "/" + HexStr(z.attrS); }
	f["lastTup"] = std::to_string(std::get<0>(z.lastTup)) + "/" + HexStr(std::get<1>(z.lastTup));
	f["optDur"] = z.optDur ? std::to_string(z.optDur->count()) : "null";
	f["uDur"] = z.uDur ? std::to_string(z.uDur->count()) : "null";
	auto innerRepr = [](const Inner* in) { return in ? std::to_string(in->a) + "/" + HexStr(in->b) : std::string("null"); };
	{ std::string r = "["; for (auto& o : z.voObj) r += innerRepr(o ? &*o : nullptr) + ","; f["voObj"] = r + "]"; }
	{ std::string r = "["; for (auto& o : z.vuObj) r += innerRepr(o.get()) + ","; f["vuObj"] = r + "]"; }
	{ std::string r = "["; for (auto& o : z.vsObj) r += innerRepr(o.get()) + ","; f["vsObj"] = r + "]"; }
	{ std::string r = "["; for (auto& t : z.vtup) r += std::to_string(std::get<0>(t)) + "/" + HexStr(std::get<1>(t)) + ","; f["vtup"] = r + "]"; }
	return f;
}

inline std::string ZooDiff(const std::map<std::string, std::string>& a, const std::map<std::string, std::string>& b)
{
	for (auto& kv : a)
	{
		auto it = b.find(kv.first);
		if (it == b.end() || it->second != kv.second)
		{
			return kv.first + ": expected=" + kv.second.substr(0, 160) + " actual=" + (it == b.end() ? std::string("<missing>") : it->second.substr(0, 160));
		}
	}
	return std::string();
}

inline CallResult LoadZooWith(ArchiveOps& ops, Zoo& z, const std::string& bytes, const SerializationOptions& o, const InCfg& c,
	sim::InFaults faults = {}, bool throwMode = false, LoadInfo* info = nullptr)
{
	ApplyKnobs(c);
	CallResult r;
	if (!c.stream)
	{
		if (faults.eofAt < bytes.size())
		{
			const std::string prefix = bytes.substr(0, faults.eofAt);
			r = Guarded([&] { FailWindow fw; ops.LoadZoo(z, o, IoIn{ &prefix, nullptr }); });
			if (info) info->faultFired = true;
		}
		else if (c.readOnlyMem)
		{
			ReadOnlyCopy ro(bytes);
			const std::string_view v = ro.view();
			r = Guarded([&] { FailWindow fw; ops.LoadZoo(z, o, IoIn{ nullptr, nullptr, &v }); });
		}
		else r = Guarded([&] { FailWindow fw; ops.LoadZoo(z, o, IoIn{ &bytes, nullptr }); });
	}
	else
	{
		PaddedInput pad;
		const std::string& content = pad.Data(bytes, c, faults);
		sim::SimIStreamBuf sb(content, c.seekable, c.delivery, faults);
		sb.SetSeekBeyondFails(c.seekBeyondFails);
		std::istream is(&sb);
		try { PaddedInput::Position(is, c); } catch (...) {}
		try { is.exceptions(ExceptionMask(c, throwMode)); } catch (...) {}
		r = Guarded([&] { FailWindow fw; ops.LoadZoo(z, o, IoIn{ nullptr, &is }); });
		if (info) { info->faultFired = sb.FaultFired(); info->reachedEof = sb.ReachedEof(); info->streamBad = is.bad(); info->streamFail = is.fail(); }
	}
	ResetKnobs();
	return r;
}

inline CallResult SaveZooWith(ArchiveOps& ops, Zoo& z, std::string& outBytes, const SerializationOptions& o, const OutCfg& c,
	sim::OutFaults faults = {}, bool* faultFired = nullptr, bool* streamFailed = nullptr)
{
	outBytes.clear();
	if (!c.stream) return Guarded([&] { FailWindow fw; ops.SaveZoo(z, o, IoOut{ &outBytes, nullptr }); });
	sim::SimOStreamBuf sb(outBytes, c.bufSize, faults);
	std::ostream os(&sb);
	if (faults.throwing) os.exceptions(std::ios::badbit);
	CallResult r = Guarded([&] { FailWindow fw; ops.SaveZoo(z, o, IoOut{ nullptr, &os }); });
	try { os.flush(); } catch (...) {}
	if (faultFired) *faultFired = sb.FaultFired();
	if (streamFailed) *streamFailed = os.fail();
	return r;
}

} // namespace hz
