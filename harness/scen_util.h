// Helpers shared by the scenarios: storage corruption faults, request programs, UTF-8 validation.
#pragma once
#include "common.h"

namespace hz {

inline bool IsValidUtf8NoNul(const std::string& s)
{
	size_t i = 0;
	const size_t n = s.size();
	while (i < n)
	{
		const unsigned char c = static_cast<unsigned char>(s[i]);
		if (c == 0) return false;
		size_t len;
		uint32_t cp;
		if (c < 0x80) { ++i; continue; }
		else if ((c & 0xE0) == 0xC0) { len = 2; cp = c & 0x1F; }
		else if ((c & 0xF0) == 0xE0) { len = 3; cp = c & 0x0F; }
		else if ((c & 0xF8) == 0xF0) { len = 4; cp = c & 0x07; }
		else return false;
		if (i + len > n) return false;
		for (size_t k = 1; k < len; ++k)
		{
			const unsigned char t = static_cast<unsigned char>(s[i + k]);
			if ((t & 0xC0) != 0x80) return false;
			cp = (cp << 6) | (t & 0x3F);
		}
		if ((len == 2 && cp < 0x80) || (len == 3 && cp < 0x800) || (len == 4 && cp < 0x10000)) return false;
		if (cp > 0x10FFFF || (cp >= 0xD800 && cp <= 0xDFFF)) return false;
		i += len;
	}
	return true;
}

// ------------------------------------------------------------------------------------------------
// Storage corruption faults on a simulated file (between save and load). Returns a description.
// kinds: flip, set, truncate, dup (torn/duplicated write), drop (lost write), insert (garbage block), zero, inflate
// ------------------------------------------------------------------------------------------------
inline std::string CorruptOnce(Source& s, Lane l, std::string& b, bool binaryFormat, RunCtx& ctx)
{
	if (b.empty()) { b.push_back(static_cast<char>(s.draw(l, 256))); ctx.count("fault.insert"); return "insert@0"; }
	const uint32_t kind = s.draw(l, 8);
	const size_t n = b.size();
	const size_t i = s.draw(l, static_cast<uint32_t>(n));
	switch (kind)
	{
	case 0:
	{
		const int bit = static_cast<int>(s.draw(l, 8));
		b[i] = static_cast<char>(b[i] ^ (1 << bit));
		ctx.count("fault.flip");
		return "flip@" + std::to_string(i) + "/" + std::to_string(bit);
	}
	case 1:
	{
		unsigned char v;
		if (binaryFormat) { static const unsigned char t[] = { 0x00, 0xff, 0xc0, 0xc1, 0x80, 0x81, 0x8f, 0x90, 0x9f, 0xa0, 0xbf, 0xc4, 0xc6, 0xc7, 0xc9, 0xca, 0xcb, 0xcf, 0xd3, 0xd4, 0xd6, 0xd7, 0xd8, 0xd9, 0xdb, 0xdc, 0xdd, 0xde, 0xdf, 0xe0, 0x7f }; v = s.pick(l, t); }
		else { static const char t[] = "\"{}[],:<>/&; \t\r\n0-9aE.=?!'\\x"; v = static_cast<unsigned char>(t[s.draw(l, sizeof t - 1)]); }
		b[i] = static_cast<char>(v);
		ctx.count("fault.set");
		return "set@" + std::to_string(i) + "=" + std::to_string(v);
	}
	case 2:
		b.resize(i);
		ctx.count("fault.truncate");
		return "truncate@" + std::to_string(i);
	case 3:
	{
		const size_t len = 1 + s.draw(l, static_cast<uint32_t>(std::min<size_t>(n - i, 40)));
		b.insert(i, b.substr(i, len));
		ctx.count("fault.dup");
		return "dup@" + std::to_string(i) + "+" + std::to_string(len);
	}
	case 4:
	{
		const size_t len = 1 + s.draw(l, static_cast<uint32_t>(std::min<size_t>(n - i, 40)));
		b.erase(i, len);
		ctx.count("fault.drop");
		return "drop@" + std::to_string(i) + "+" + std::to_string(len);
	}
	case 5:
	{
		const size_t len = 1 + s.draw(l, 8);
		std::string g;
		for (size_t k = 0; k < len; ++k) g.push_back(binaryFormat ? static_cast<char>(s.draw(l, 256)) : static_cast<char>(0x20 + s.draw(l, 0x5F)));
		b.insert(i, g);
		ctx.count("fault.insert");
		return "insert@" + std::to_string(i) + "+" + std::to_string(len);
	}
	case 6:
	{
		const size_t len = 1 + s.draw(l, static_cast<uint32_t>(std::min<size_t>(n - i, 16)));
		for (size_t k = 0; k < len; ++k) b[i + k] = binaryFormat ? 0 : ' ';
		ctx.count("fault.zero");
		return "zero@" + std::to_string(i) + "+" + std::to_string(len);
	}
	default:
	{
		// inflate a length/count field: find the next header byte with an explicit size and blow the size up
		if (binaryFormat)
		{
			for (size_t k = 0; k < n; ++k)
			{
				const size_t p = (i + k) % n;
				const unsigned char c = static_cast<unsigned char>(b[p]);
				int sz = 0;
				if (c == 0xc4 || c == 0xd9 || c == 0xc7) sz = 1;
				else if (c == 0xc5 || c == 0xda || c == 0xdc || c == 0xde || c == 0xc8) sz = 2;
				else if (c == 0xc6 || c == 0xdb || c == 0xdd || c == 0xdf || c == 0xc9) sz = 4;
				if (sz && p + sz < n)
				{
					const uint32_t how = s.draw(l, 3);
					for (int q = 1; q <= sz; ++q) b[p + q] = static_cast<char>(how == 0 ? 0xff : how == 1 ? (q == 1 ? 0x7f : 0xff) : (q == sz ? 0x01 : 0x00));
					ctx.count("fault.inflate");
					return "inflate@" + std::to_string(p);
				}
			}
			// no explicit-size header: turn a fix header into a 32-bit one
			static const unsigned char hdr[] = { 0xdd, 0xdf, 0xdb, 0xc6 };
			std::string g;
			g.push_back(static_cast<char>(s.pick(l, hdr)));
			const uint32_t how = s.draw(l, 3);
			g += how == 0 ? std::string("\xff\xff\xff\xff", 4) : how == 1 ? std::string("\x00\x01\x00\x00", 4) : std::string("\x7f\xff\xff\xff", 4);
			b.replace(i, 1, g);
			ctx.count("fault.inflate");
			return "inflate-new@" + std::to_string(i);
		}
		// text: repeat a structural opener many times (depth bomb) or a long digit run
		const uint32_t how = s.draw(l, 3);
		const size_t reps = 8 + s.draw(l, 600);
		b.insert(i, std::string(reps, how == 0 ? '[' : how == 1 ? '9' : '"'));
		ctx.count("fault.inflate");
		return "inflate-text@" + std::to_string(i) + "x" + std::to_string(reps);
	}
	}
}

// ------------------------------------------------------------------------------------------------
// Request programs
// ------------------------------------------------------------------------------------------------
enum class ProgStyle { DocOrder, Reverse, Shuffle, Full };

// Builds a program for an object node. `Full` adds repeats, absent keys, VisitKeys and members never requested.
inline void BuildProgram(Source& s, Lane l, DynNode& obj, ProgStyle style, int archive)
{
	obj.useProgram = true;
	obj.program.clear();
	const uint32_t n = static_cast<uint32_t>(obj.items.size());
	std::vector<uint32_t> order(n);
	for (uint32_t i = 0; i < n; ++i) order[i] = i;
	if (style == ProgStyle::Reverse) std::reverse(order.begin(), order.end());
	else if (style == ProgStyle::Shuffle || style == ProgStyle::Full)
	{
		for (uint32_t i = n; i > 1; --i) std::swap(order[i - 1], order[s.draw(l, i)]);
	}
	if (style != ProgStyle::Full)
	{
		for (auto m : order) { ReqOp op; op.type = ReqOp::Get; op.member = m; obj.program.push_back(op); }
		return;
	}
	const uint32_t len = s.draw(l, 17);
	uint32_t next = 0;
	for (uint32_t i = 0; i < len; ++i)
	{
		ReqOp op;
		const uint32_t what = s.draw(l, 10);
		if (what <= 5 && n > 0)
		{
			op.type = ReqOp::Get;
			op.member = order[next++ % n];
		}
		else if (what == 6 && n > 0)
		{
			op.type = ReqOp::Get;       // repeated / arbitrary member
			op.member = s.draw(l, n);
		}
		else if (what == 7 || what == 8 || n == 0)
		{
			op.type = ReqOp::GetAbsent;
			static const K kinds[] = { K::I32, K::Str, K::Bool, K::U64, K::F64, K::Str16, K::Null, K::I8 };
			op.kind = s.pick(l, kinds);
			if (archive == A_XML) op.key.s = "absent" + std::to_string(s.draw(l, 3));
			else
			{
				const uint32_t km = s.draw(l, 6);
				if (km == 0) op.key.s = "absent";
				else if (km == 1) op.key.s = "k";           // prefix of generated names
				else if (km == 2 && n > 0 && !obj.keys[0].isInt) op.key.s = obj.keys[0].s + "_";
				else if (km == 3 && n > 0)
				{
					// a proper prefix of an existing member's key
					const Key& from = obj.keys[s.draw(l, n)];
					op.key.s = from.isInt || from.s.size() < 2 ? std::string("zq") : from.s.substr(0, from.s.size() - 1 - s.draw(l, static_cast<uint32_t>(std::min<size_t>(from.s.size() - 1, 3))));
				}
				else if (km == 4 && (archive == A_MSGPACK || archive == A_JSON))
				{
					// an absent integer key: -1 (through every signed width), or next to / the negation of an existing integer key
					op.key.isInt = true;
					static const uint8_t kinds[] = { 0, 2, 3 };
					op.key.ikind = s.pick(l, kinds);
					op.key.i = -1;
					const uint32_t im = s.draw(l, 5);
					if (im >= 3) { op.key.i = im == 3 ? 0 : 1; op.key.ikind = 0; }   // what a freshly constructed key slot holds
					else if (im != 0 && n > 0)
					{
						const Key& from = obj.keys[s.draw(l, n)];
						if (from.isInt && from.ikind != 1) { op.key.i = im == 1 ? from.i + 1 : -from.i; op.key.ikind = 0; }
					}
				}
				else op.key.s = "zz" + std::to_string(s.draw(l, 100));
			}
			if (!op.key.isInt && n > 0 && !obj.keys[0].isInt) { op.key.cstr = obj.keys[0].cstr; op.key.carr = obj.keys[0].carr; }
			bool clash = false;
			for (auto& k : obj.keys) if (k == op.key) clash = true;
			if (clash) { if (op.key.isInt) { op.key = Key(); op.key.s = "absentInt"; } else op.key.s += "#absent"; }
			if (archive == A_XML) { for (auto& ch : op.key.s) if (ch == '#') ch = '_'; }
			op.key.Seal();
		}
		else
		{
			op.type = ReqOp::VisitKeys;
		}
		obj.program.push_back(op);
	}
}

template <class F>
void ForEachNode(DynNode& n, F&& f)
{
	f(n);
	for (auto& c : n.items) ForEachNode(c, f);
}

inline size_t CountNodes(const DynNode& n)
{
	size_t c = 1;
	for (auto& x : n.items) c += CountNodes(x);
	return c;
}

// human-readable rendering of a tree for replay files (bounded)
inline void Pretty(const DynNode& n, std::string& out, int depth = 0)
{
	if (out.size() > 6000) { out += "..."; return; }
	switch (n.kind)
	{
	case K::Arr:
		out += "[";
		if (n.readCount >= 0) out += "(read " + std::to_string(n.readCount) + ") ";
		for (auto& c : n.items) { Pretty(c, out, depth + 1); out += ", "; }
		out += "]";
		break;
	case K::Obj:
		out += "{";
		for (size_t i = 0; i < n.items.size(); ++i)
		{
			out += n.keys[i].isInt ? "#" + n.keys[i].str() + "(k" + std::to_string(n.keys[i].ikind) + ")" : (n.keys[i].cstr ? "c'" : "'") + sim::hex(n.keys[i].s, 24) + "'";
			out += ": ";
			Pretty(n.items[i], out, depth + 1);
			out += ", ";
		}
		if (n.useProgram)
		{
			out += " PROGRAM(";
			for (auto& op : n.program)
			{
				if (op.type == ReqOp::Get) out += "get#" + std::to_string(op.member) + " ";
				else if (op.type == ReqOp::GetAbsent) out += std::string("absent'") + op.key.str() + "':" + KName(op.kind) + " ";
				else out += "visitkeys ";
			}
			out += ")";
		}
		out += "}";
		break;
	default:
	{
		std::string r = Repr(n);
		if (r.size() > 80) r = r.substr(0, 80) + "...(" + std::to_string(r.size()) + ")";
		out += r;
	}
	}
}
inline std::string Pretty(const DynNode& n) { std::string s; Pretty(n, s); return s; }

} // namespace hz
