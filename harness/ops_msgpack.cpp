#include "bitserializer/msgpack_archive.h"
#include "ops_impl.h"

namespace vm {
ArchiveOps& MsgPackOps()
{
	static OpsImpl<BitSerializer::MsgPack::MsgPackArchive, true, true> ops;
	return ops;
}
}
