// Zoo: one struct holding every std adapter the library ships (tree archives) plus flat rows (CSV).
#pragma once
#include <array>
#include <atomic>
#include <bitset>
#include <deque>
#include <forward_list>
#include <list>
#include <map>
#include <memory>
#include <optional>
#include <queue>
#include <set>
#include <stack>
#include <tuple>
#include <unordered_map>
#include <unordered_set>
#include <valarray>
#include <algorithm>
#include "bitserializer/bit_serializer.h"
#include "bitserializer/types/std/array.h"
#include "bitserializer/types/std/atomic.h"
#include "bitserializer/types/std/bitset.h"
#include "bitserializer/types/std/deque.h"
#include "bitserializer/types/std/forward_list.h"
#include "bitserializer/types/std/list.h"
#include "bitserializer/types/std/map.h"
#include "bitserializer/types/std/memory.h"
#include "bitserializer/types/std/optional.h"
#include "bitserializer/types/std/pair.h"
#include "bitserializer/types/std/queue.h"
#include "bitserializer/types/std/set.h"
#include "bitserializer/types/std/stack.h"
#include "bitserializer/types/std/tuple.h"
#include "bitserializer/types/std/unordered_map.h"
#include "bitserializer/types/std/unordered_set.h"
#include "bitserializer/types/std/valarray.h"
#include "bitserializer/types/std/vector.h"

namespace vm {

// A map reference carrying a non-default load mode (the mode is a parameter of the library's SerializeObject overload)
template <class TMap>
struct MapRef
{
	using value_type = typename TMap::value_type;
	TMap& m;
	BitSerializer::MapLoadMode mode;
	[[nodiscard]] size_t size() const { return m.size(); }
	auto begin() { return m.begin(); }
	auto end() { return m.end(); }
	auto begin() const { return m.begin(); }
	auto end() const { return m.end(); }
};
template <class A, class TMap>
void SerializeObject(A& ar, MapRef<TMap>& r) { BitSerializer::SerializeObject(ar, r.m, r.mode); }

struct Row
{
	int32_t id = 0;
	std::string name;
	double score = 0;
	bool flag = false;
	std::optional<int32_t> opt;
	std::u16string wide;

	template <class A>
	void Serialize(A& ar)
	{
		using BitSerializer::KeyValue;
		ar << KeyValue("id", id);
		ar << KeyValue("name", name);
		ar << KeyValue("score", score);
		ar << KeyValue("flag", flag);
		ar << KeyValue("opt", opt);
		ar << KeyValue("wide", wide);
	}
};

struct Inner
{
	int32_t a = 0;
	std::string b;
	template <class A>
	void Serialize(A& ar)
	{
		using BitSerializer::KeyValue;
		ar << KeyValue("a", a);
		ar << KeyValue("b", b);
	}
};

struct Zoo
{
	std::vector<int32_t> vec;
	std::vector<bool> vbool;
	std::deque<int32_t> deq;
	std::list<std::string> lst;
	std::forward_list<int32_t> fwd;
	std::array<int32_t, 3> arr{};
	std::valarray<int32_t> val;
	std::queue<int32_t> que;
	std::stack<int32_t> stk;
	std::priority_queue<int32_t> pq;
	std::set<int32_t> set;
	std::multiset<int32_t> mset;
	std::unordered_set<std::string> uset;
	std::unordered_multiset<int32_t> umset;
	std::map<std::string, int32_t> map;
	std::map<int32_t, std::string> imap;
	std::multimap<int32_t, int32_t> mmap;
	std::unordered_map<std::string, int32_t> umap;
	std::unordered_multimap<int32_t, int32_t> ummap;
	std::map<std::string, int32_t> mapOnlyExist;
	std::map<std::string, int32_t> mapUpdate;
	std::optional<int32_t> opt;
	std::optional<std::string> optStr;
	std::unique_ptr<int32_t> uptr;
	std::shared_ptr<std::string> sptr;
	std::unique_ptr<Inner> uobj;
	std::bitset<8> bits;
	std::tuple<int32_t, std::string, bool> tup{};
	std::pair<int32_t, std::string> pr{};
	std::atomic<int32_t> atom{ 0 };
	std::string s;
	std::u16string s16;
	std::u32string s32;
	std::wstring ws;
	std::vector<std::vector<int32_t>> vv;
	std::map<std::string, std::vector<int32_t>> mv;
	std::vector<std::optional<int32_t>> vo;
	std::vector<Inner> vobj;
	std::vector<unsigned char> bin;
	std::vector<Row> rows;   // the CSV root; also saved as a member in tree archives

	// which load modes are applied to mapOnlyExist/mapUpdate (Clean when false: used for plain round trips)
	bool useLoadModes = false;
	// XML element names cannot be numbers: maps with integer keys are left out there
	bool skipIntKeyMaps = false;

	template <class A>
	void Serialize(A& ar)
	{
		using BitSerializer::KeyValue;
		ar << KeyValue("vec", vec);
		ar << KeyValue("vbool", vbool);
		ar << KeyValue("deq", deq);
		ar << KeyValue("lst", lst);
		ar << KeyValue("fwd", fwd);
		ar << KeyValue("arr", arr);
		ar << KeyValue("val", val);
		ar << KeyValue("que", que);
		ar << KeyValue("stk", stk);
		ar << KeyValue("pq", pq);
		ar << KeyValue("set", set);
		ar << KeyValue("mset", mset);
		ar << KeyValue("uset", uset);
		ar << KeyValue("umset", umset);
		ar << KeyValue("map", map);
		if (!skipIntKeyMaps) { ar << KeyValue("imap", imap); }
		ar << KeyValue("mmap", mmap);
		ar << KeyValue("umap", umap);
		ar << KeyValue("ummap", ummap);
		{
			MapRef<std::map<std::string, int32_t>> r1{ mapOnlyExist, useLoadModes ? BitSerializer::MapLoadMode::OnlyExistKeys : BitSerializer::MapLoadMode::Clean };
			ar << KeyValue("mapOnlyExist", r1);
			MapRef<std::map<std::string, int32_t>> r2{ mapUpdate, useLoadModes ? BitSerializer::MapLoadMode::UpdateKeys : BitSerializer::MapLoadMode::Clean };
			ar << KeyValue("mapUpdate", r2);
		}
		ar << KeyValue("opt", opt);
		ar << KeyValue("optStr", optStr);
		ar << KeyValue("uptr", uptr);
		ar << KeyValue("sptr", sptr);
		ar << KeyValue("uobj", uobj);
		ar << KeyValue("bits", bits);
		ar << KeyValue("tup", tup);
		ar << KeyValue("pr", pr);
		ar << KeyValue("atom", atom);
		ar << KeyValue("s", s);
		ar << KeyValue("s16", s16);
		ar << KeyValue("s32", s32);
		ar << KeyValue("ws", ws);
		ar << KeyValue("vv", vv);
		ar << KeyValue("mv", mv);
		ar << KeyValue("vo", vo);
		ar << KeyValue("vobj", vobj);
		ar << KeyValue("bin", bin);
		ar << KeyValue("rows", rows);
	}
};

} // namespace vm
