// Zoo: one struct holding every std adapter the library ships (tree archives) plus flat rows (CSV).
#pragma once
#include <array>
#include <atomic>
#include <bitset>
#include <chrono>
#include <deque>
#include <forward_list>
#include <list>
#include <map>
#include <memory>
#include <optional>
#include <queue>
#include <set>
#include <stack>
#include <tuple>
#include <unordered_map>
#include <unordered_set>
#include <valarray>
#include <algorithm>
#include "bitserializer/bit_serializer.h"
#include "bitserializer/types/std/array.h"
#include "bitserializer/types/std/atomic.h"
#include "bitserializer/types/std/bitset.h"
#include "bitserializer/types/std/chrono.h"
#include "bitserializer/types/std/deque.h"
#include "bitserializer/types/std/forward_list.h"
#include "bitserializer/types/std/list.h"
#include "bitserializer/types/std/map.h"
#include "bitserializer/types/std/memory.h"
#include "bitserializer/types/std/optional.h"
#include "bitserializer/types/std/pair.h"
#include "bitserializer/types/std/queue.h"
#include "bitserializer/types/std/set.h"
#include "bitserializer/types/std/stack.h"
#include "bitserializer/types/std/tuple.h"
#include "bitserializer/types/std/unordered_map.h"
#include "bitserializer/types/std/unordered_set.h"
#include "bitserializer/types/std/valarray.h"
#include "bitserializer/types/std/vector.h"

namespace vm {

// A map reference carrying a non-default load mode (the mode is a parameter of the library's SerializeObject overload)
template <class TMap>
struct MapRef
{
	using value_type = typename TMap::value_type;
	TMap& m;
	BitSerializer::MapLoadMode mode;
	[[nodiscard]] size_t size() const { return m.size(); }
	auto begin() { return m.begin(); }
	auto end() { return m.end(); }
	auto begin() const { return m.begin(); }
	auto end() const { return m.end(); }
};
template <class A, class TMap>
void SerializeObject(A& ar, MapRef<TMap>& r) { BitSerializer::SerializeObject(ar, r.m, r.mode); }

enum class Color { Red, Green, Blue };

struct Row
{
	int32_t id = 0;
	std::string name;
	double score = 0;
	bool flag = false;
	std::optional<int32_t> opt;
	std::u16string wide;
	Color color = Color::Red;
	std::chrono::time_point<std::chrono::system_clock, std::chrono::seconds> when{};

	template <class A>
	void Serialize(A& ar)
	{
		using BitSerializer::KeyValue;
		ar << KeyValue("color", color);
		ar << KeyValue("when", when);
		ar << KeyValue("id", id);
		ar << KeyValue("name", name);
		ar << KeyValue("score", score);
		ar << KeyValue("flag", flag);
		ar << KeyValue("opt", opt);
		ar << KeyValue("wide", wide);
	}
};

struct Inner
{
	int32_t a = 0;
	std::string b;
	bool omitB = false;   // saving only: written by a class version that has no member "b"
	template <class A>
	void Serialize(A& ar)
	{
		using BitSerializer::KeyValue;
		ar << KeyValue("a", a);
		if (A::IsLoading() || !omitB) ar << KeyValue("b", b);
	}
};

// Targets of fixed shape (their elements are fields: what is not loaded keeps its value) for the typed-corruption check
struct Shapes
{
	std::tuple<int32_t, std::string, bool, int64_t> tup{};
	std::array<int32_t, 4> arr{};
	std::vector<std::tuple<int32_t, std::string>> vt;
	std::bitset<6> bits;
	std::vector<bool> vb;
	int32_t tail = 0;
	bool tailLoaded = false;
	template <class A>
	void Serialize(A& ar)
	{
		using BitSerializer::KeyValue;
		ar << KeyValue("tup", tup);
		ar << KeyValue("arr", arr);
		ar << KeyValue("vt", vt);
		ar << KeyValue("bits", bits);
		ar << KeyValue("vb", vb);
		ar << KeyValue("tail", tail, Spy{ &tailLoaded });
	}
};

// members of Zoo in Serialize order (bit positions of Zoo::saveMask)
static const char* const kZooOrder[] = { "base", "color", "emap", "dur", "durMs", "tp", "tpMs", "vec", "vbool", "deq", "lst", "fwd", "arr", "val", "que", "stk", "pq", "set", "mset", "uset", "umset", "map", "imap", "mmap", "umap", "ummap", "mapOnlyExist", "mapUpdate", "mapUpdateOpt", "opt", "optStr", "uptr", "sptr", "uobj", "bits", "tup", "pr", "atom", "s", "s16", "s32", "ws", "vv", "mv", "vo", "vobj", "bin", "rows", "voObj", "vuObj", "vsObj", "vtup", "optDur", "uDur", "lastTup" };

struct ZooBase
{
	int32_t baseId = 0;
	std::string baseName;
	template <class A>
	void Serialize(A& ar)
	{
		using BitSerializer::KeyValue;
		ar << KeyValue("baseId", baseId);
		ar << KeyValue("baseName", baseName);
	}
};

struct Zoo : ZooBase
{
	std::vector<int32_t> vec;
	std::vector<bool> vbool;
	std::deque<int32_t> deq;
	std::list<std::string> lst;
	std::forward_list<int32_t> fwd;
	std::array<int32_t, 3> arr{};
	std::valarray<int32_t> val;
	std::queue<int32_t> que;
	std::stack<int32_t> stk;
	std::priority_queue<int32_t> pq;
	std::set<int32_t> set;
	std::multiset<int32_t> mset;
	std::unordered_set<std::string> uset;
	std::unordered_multiset<int32_t> umset;
	std::map<std::string, int32_t> map;
	std::map<int32_t, std::string> imap;
	std::multimap<int32_t, int32_t> mmap;
	std::unordered_map<std::string, int32_t> umap;
	std::unordered_multimap<int32_t, int32_t> ummap;
	std::map<std::string, int32_t> mapOnlyExist;
	std::map<std::string, int32_t> mapUpdate;
	std::optional<int32_t> opt;
	std::optional<std::string> optStr;
	std::unique_ptr<int32_t> uptr;
	std::shared_ptr<std::string> sptr;
	std::unique_ptr<Inner> uobj;
	std::bitset<8> bits;
	std::tuple<int32_t, std::string, bool> tup{};
	std::pair<int32_t, std::string> pr{};
	std::atomic<int32_t> atom{ 0 };
	std::string s;
	std::u16string s16;
	std::u32string s32;
	std::wstring ws;
	std::vector<std::vector<int32_t>> vv;
	std::map<std::string, std::vector<int32_t>> mv;
	std::vector<std::optional<int32_t>> vo;
	std::vector<Inner> vobj;
	std::vector<unsigned char> bin;
	std::vector<Row> rows;   // the CSV root; also saved as a member in tree archives
	// sequence containers whose items are wrappers around objects, and tuples
	std::vector<std::optional<Inner>> voObj;
	std::vector<std::unique_ptr<Inner>> vuObj;
	std::list<std::shared_ptr<Inner>> vsObj;
	std::vector<std::tuple<int32_t, std::string>> vtup;
	std::string computed;   // loaded from the member the save side computes
	std::tuple<int32_t, std::string> lastTup{};   // the last member of the document is a tuple (an input that ends inside it ends inside a tuple element)
	// XML attributes of the root element (XML archive only)
	int32_t attrI = 0;
	uint64_t attrU64 = 0;
	int64_t attrI64 = 0;
	bool attrB = false;
	double attrF = 0;
	std::string attrS;
	// wrappers around chrono values (text archives convert them from ISO-8601 text by policy)
	std::optional<std::chrono::seconds> optDur;
	std::unique_ptr<std::chrono::seconds> uDur;
	bool altChronoDoc = false;                 // saving only: the members are written as plain texts (valid, out of range, not ISO at all)
	std::optional<std::string> optDurAlt, uDurAlt;
	std::vector<std::tuple<std::optional<int32_t>, std::optional<std::string>>> vtupAlt;   // saving only (altSetDoc): null components
	// the CSV root can be any sequence container of rows (csvRoot: 0 vector, 1 list, 2 deque, 3 forward_list)
	int csvRoot = 0;
	std::list<Row> rowsList;
	std::deque<Row> rowsDeque;
	std::forward_list<Row> rowsFwd;
	std::map<std::string, std::optional<int32_t>> mapUpdateOpt;   // UpdateKeys with values that can be null
	Color color = Color::Red;
	std::map<Color, int32_t> emap;
	std::chrono::seconds dur{};
	std::chrono::milliseconds durMs{};
	std::chrono::system_clock::time_point tp{};
	std::chrono::time_point<std::chrono::system_clock, std::chrono::milliseconds> tpMs{};

	// documents written by "another version of the class" (saving only): the same member names, other member types
	bool altSetDoc = false;                                         // "uset"/"mset" written from vectors of optionals: the document has null elements
	std::vector<std::optional<std::string>> usetAlt;
	std::vector<std::optional<int32_t>> msetAlt;
	std::vector<std::optional<int32_t>> valAlt;   // "val" (valarray) with null elements, same length

	// which load modes are applied to mapOnlyExist/mapUpdate (Clean when false: used for plain round trips)
	bool useLoadModes = false;
	// XML element names cannot be numbers: maps with integer keys are left out there
	bool skipIntKeyMaps = false;
	// bit i = member #i (in Serialize order, see kZooOrder) is saved
	uint64_t saveMask = ~0ull;

	template <class A>
	void Serialize(A& ar)
	{
		using BitSerializer::KeyValue;
		// F(...) saves member #i only when its bit is set in saveMask (documents that omit fields); loading always asks for every member
		int idx = 0;
		auto F = [&](auto&& kv) { const int i = idx++; if (A::IsLoading() || ((saveMask >> i) & 1)) ar << std::forward<decltype(kv)>(kv); };
		F(BitSerializer::BaseObject<ZooBase>(*this));
		F(KeyValue("color", color));
		F(KeyValue("emap", emap));
		F(KeyValue("dur", dur));
		F(KeyValue("durMs", durMs));
		F(KeyValue("tp", tp));
		F(KeyValue("tpMs", tpMs));
		F(KeyValue("vec", vec));
		F(KeyValue("vbool", vbool));
		F(KeyValue("deq", deq));
		F(KeyValue("lst", lst));
		F(KeyValue("fwd", fwd));
		F(KeyValue("arr", arr));
		if (!A::IsLoading() && altSetDoc) { F(KeyValue("val", valAlt)); } else { F(KeyValue("val", val)); }
		F(KeyValue("que", que));
		F(KeyValue("stk", stk));
		F(KeyValue("pq", pq));
		F(KeyValue("set", set));
		if (!A::IsLoading() && altSetDoc) { F(KeyValue("mset", msetAlt)); F(KeyValue("uset", usetAlt)); }
		else { F(KeyValue("mset", mset)); F(KeyValue("uset", uset)); }
		F(KeyValue("umset", umset));
		F(KeyValue("map", map));
		if (!skipIntKeyMaps) { F(KeyValue("imap", imap)); } else { ++idx; }
		F(KeyValue("mmap", mmap));
		F(KeyValue("umap", umap));
		F(KeyValue("ummap", ummap));
		{
			MapRef<std::map<std::string, int32_t>> r1{ mapOnlyExist, useLoadModes ? BitSerializer::MapLoadMode::OnlyExistKeys : BitSerializer::MapLoadMode::Clean };
			F(KeyValue("mapOnlyExist", r1));
			MapRef<std::map<std::string, int32_t>> r2{ mapUpdate, useLoadModes ? BitSerializer::MapLoadMode::UpdateKeys : BitSerializer::MapLoadMode::Clean };
			F(KeyValue("mapUpdate", r2));
			MapRef<std::map<std::string, std::optional<int32_t>>> r3{ mapUpdateOpt, useLoadModes ? BitSerializer::MapLoadMode::UpdateKeys : BitSerializer::MapLoadMode::Clean };
			F(KeyValue("mapUpdateOpt", r3));
		}
		F(KeyValue("opt", opt));
		F(KeyValue("optStr", optStr));
		F(KeyValue("uptr", uptr));
		F(KeyValue("sptr", sptr));
		F(KeyValue("uobj", uobj));
		F(KeyValue("bits", bits));
		F(KeyValue("tup", tup));
		F(KeyValue("pr", pr));
		F(KeyValue("atom", atom));
		F(KeyValue("s", s));
		F(KeyValue("s16", s16));
		F(KeyValue("s32", s32));
		F(KeyValue("ws", ws));
		F(KeyValue("vv", vv));
		F(KeyValue("mv", mv));
		F(KeyValue("vo", vo));
		F(KeyValue("vobj", vobj));
		F(KeyValue("bin", bin));
		F(KeyValue("rows", rows));
		F(KeyValue("voObj", voObj));
		F(KeyValue("vuObj", vuObj));
		F(KeyValue("vsObj", vsObj));
		if (!A::IsLoading() && altSetDoc) { F(KeyValue("vtup", vtupAlt)); } else { F(KeyValue("vtup", vtup)); }
		if (!A::IsLoading() && altChronoDoc) { F(KeyValue("optDur", optDurAlt)); F(KeyValue("uDur", uDurAlt)); }
		else { F(KeyValue("optDur", optDur)); F(KeyValue("uDur", uDur)); }
		if constexpr (A::archive_type == BitSerializer::ArchiveType::Xml)
		{
			using BitSerializer::AttributeValue;
			if (A::IsLoading() || saveMask == ~0ull)
			{
				ar << AttributeValue("attrI", attrI);
				ar << AttributeValue("attrU64", attrU64);
				ar << AttributeValue("attrI64", attrI64);
				ar << AttributeValue("attrB", attrB);
				ar << AttributeValue("attrF", attrF);
				ar << AttributeValue("attrS", attrS);
			}
		}
		// a value computed while saving: the KeyValue owns a temporary (loading reads it into a plain member)
		if constexpr (A::IsSaving()) { if (saveMask == ~0ull) ar << KeyValue("computed", baseName + "/computed-while-saving/" + s); }
		else { ar << KeyValue("computed", computed); }
		F(KeyValue("lastTup", lastTup));
	}
};

} // namespace vm

// (the macro pastes the type name into an identifier, so it needs an unqualified name)
namespace vm { using ZooColor = Color; }
using vm::ZooColor;
REGISTER_ENUM(ZooColor, {
	{ ZooColor::Red, "Red" },
	{ ZooColor::Green, "Green" },
	{ ZooColor::Blue, "Blue" }
})
DECLARE_ENUM_STREAM_OPS(ZooColor)
