#include "bitserializer/csv_archive.h"
#include "ops_impl.h"

namespace vm {
ArchiveOps& CsvOps()
{
	static OpsImpl<BitSerializer::Csv::CsvArchive, false, false> ops;
	return ops;
}
}
