#include "bitserializer/rapidjson_archive.h"
#include "ops_impl.h"

namespace vm {
ArchiveOps& JsonOps()
{
	static OpsImpl<BitSerializer::Json::RapidJson::JsonArchive, true, true> ops;
	return ops;
}
}
