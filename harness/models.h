// Workload models: ordinary user types built on BitSerializer's documented extension points.
//  - DynNode: a dynamic tree (scalars of every width, four string widths, byte container, array, object) which is saved by
//    walking the tree and loaded schema-driven into a skeleton of the expected shape; an object node may carry a request
//    *program* (keyed reads in any order, absent keys, VisitKeys, nested scopes left partly read).
#pragma once
#include <algorithm>
#include <cstdint>
#include <chrono>
#include <cstring>
#include <optional>
#include <string>
#include <vector>
#include "bitserializer/bit_serializer.h"
#include "bitserializer/types/std/vector.h"
#include "bitserializer/types/std/chrono.h"

namespace vm {

using namespace BitSerializer;

enum class K : uint8_t { Null, Bool, I8, U8, I16, U16, I32, U32, I64, U64, F32, F64, Str, Str16, Str32, WStr, Bin, Arr, Obj, Ts, COUNT };

inline const char* KName(K k)
{
	static const char* n[] = { "null", "bool", "i8", "u8", "i16", "u16", "i32", "u32", "i64", "u64", "f32", "f64", "str", "str16", "str32", "wstr", "bin", "arr", "obj", "ts" };
	return n[static_cast<int>(k)];
}
inline bool IsScalar(K k) { return k <= K::F64; }
inline bool IsString(K k) { return k >= K::Str && k <= K::WStr; }
inline bool IsInteger(K k) { return k >= K::I8 && k <= K::U64; }

struct Key
{
	bool isInt = false;
	bool cstr = false;       // string key handed to the library as `const char*` (a literal in user code)
	bool carr = false;       // string key handed over as an lvalue `char[64]` buffer that is larger than the text (snprintf'ed names)
	uint8_t ikind = 0;       // integer key type in user code: 0 int64_t, 1 uint64_t (value in `u`), 2 int32_t, 3 int8_t
	std::string s;
	mutable char buffer[64] = {};
	void Seal() const { if (carr && s.size() < sizeof buffer) { memset(buffer, 0, sizeof buffer); memcpy(buffer, s.data(), s.size()); } }
	int64_t i = 0;
	uint64_t u = 0;
	// integer keys are equal when their mathematical values are (the document does not record the C++ type)
	bool negative() const { return ikind != 1 && i < 0; }
	uint64_t magnitude() const { return ikind == 1 ? u : static_cast<uint64_t>(i); }
	bool operator==(const Key& o) const
	{
		if (isInt != o.isInt) return false;
		if (!isInt) return s == o.s;
		return negative() == o.negative() && magnitude() == o.magnitude();
	}
	std::string str() const { return isInt ? (ikind == 1 ? std::to_string(u) : std::to_string(i)) : s; }
};

struct ReqOp
{
	enum T : uint8_t { Get, GetAbsent, VisitKeys } type = Get;
	uint32_t member = 0;   // Get: index of the member
	Key key;               // GetAbsent: the absent key
	K kind = K::I32;       // GetAbsent: kind of the target
};

struct OpResult
{
	uint8_t type = 0;
	uint32_t member = 0;
	bool loaded = false;
	bool untouched = true;          // GetAbsent: target still holds the marker
	std::string valueRepr;          // Get: canonical repr of the member after the request
	std::vector<std::string> keys;  // VisitKeys
};

// validator that only records whether the field was loaded
struct Spy
{
	bool* out;
	template <class T>
	std::optional<std::string> operator()(const T&, bool loaded) const { *out = loaded; return std::nullopt; }
};

struct DynNode;
struct ArrView
{
	DynNode* n;
	[[nodiscard]] size_t size() const;
};

struct DynNode
{
	K kind = K::Null;
	bool b = false;
	int8_t i8 = 0; uint8_t u8 = 0; int16_t i16 = 0; uint16_t u16 = 0;
	int32_t i32 = 0; uint32_t u32 = 0; int64_t i64 = 0; uint64_t u64 = 0;
	float f32 = 0; double f64 = 0;
	std::string s; std::u16string s16; std::u32string s32; std::wstring ws;
	std::vector<unsigned char> bin;
	bool binAsArray = false;        // Bin, saving only: written as a plain array of small integers (what a `std::vector<uint16_t>` of an older class version wrote); byte containers are documented to accept both
	std::chrono::system_clock::time_point tp{};   // K::Ts (binary timestamp in MsgPack, ISO-8601 text elsewhere)
	std::vector<DynNode> items;     // Arr: elements, Obj: member values
	std::vector<Key> keys;          // Obj: member keys (parallel to items)

	// load control
	bool required = false;          // attach Required() to this member
	int32_t readCount = -1;         // Arr: how many elements to read (-1: all)
	int32_t sizeLie = 0;            // Arr: size() reports this many elements fewer than are saved (a user error the binary writer must report)
	bool useProgram = false;        // Obj: interpret `program` instead of reading every member in order
	std::vector<ReqOp> program;

	// load trace
	bool loaded = false;
	uint32_t loadedCount = 0;       // Arr: elements read
	bool extra = false;             // Arr: the document had more elements than were read (when readCount < 0)
	std::vector<OpResult> results;  // Obj with program

	DynNode() = default;
	explicit DynNode(K k) : kind(k) {}

	template <class A> void Serialize(A& ar);          // object scope
	template <class A> void SerializeItems(A& ar);     // array scope
	template <class A, class TKey> void Member(A& ar, const TKey& key, DynNode& c);
	template <class A, class F> static void WithKey(const Key& k, F&& f)
	{
		if (!k.isInt && k.carr && k.s.size() < 64 && k.s.find('\0') == std::string::npos)
		{
			// the buffer lives in the key (the JSON archive keeps raw-pointer keys by reference until the document is written); it is
			// filled by Seal() when the key is made, so that a shared const document is only read here
			if (strncmp(k.buffer, k.s.c_str(), sizeof k.buffer) != 0) k.Seal();
			f(k.buffer);
			return;
		}
		if (!k.isInt)
		{
			// (the MessagePack archive accepts string keys as std::string / std::string_view only: `const char*` does not compile there)
			if constexpr (A::archive_type != ArchiveType::MsgPack) { if (k.cstr) { f(k.s.c_str()); return; } }
			f(k.s);
			return;
		}
		switch (k.ikind)
		{
		case 1: f(k.u); break;
		case 2: f(static_cast<int32_t>(k.i)); break;
		case 3: f(static_cast<int8_t>(k.i)); break;
		default: f(k.i); break;
		}
	}
	template <class A> void MemberAt(A& ar, size_t m)
	{
		WithKey<A>(keys[m], [&](const auto& key) { Member(ar, key, items[m]); });
	}
	template <class A> bool Item(A& ar, DynNode& c);
	template <class A> void RunProgram(A& ar);
	template <class A, class TKey> void Absent(A& ar, const TKey& key, const ReqOp& op, OpResult& r);
};

inline size_t ArrView::size() const { return n->items.size() - std::min<size_t>(n->items.size(), static_cast<size_t>(n->sizeLie)); }

template <class A>
void SerializeArray(A& ar, ArrView& v) { v.n->SerializeItems(ar); }

// ------------------------------------------------------------------------------------------------
// canonical representation (equality, hashing, describing)
// ------------------------------------------------------------------------------------------------
inline void HexAppend(std::string& out, const void* p, size_t n)
{
	static const char* d = "0123456789abcdef";
	const unsigned char* b = static_cast<const unsigned char*>(p);
	for (size_t i = 0; i < n; ++i) { out.push_back(d[b[i] >> 4]); out.push_back(d[b[i] & 15]); }
}

inline void Repr(const DynNode& n, std::string& out)
{
	out += KName(n.kind);
	out.push_back(':');
	switch (n.kind)
	{
	case K::Null: break;
	case K::Bool: out += n.b ? "1" : "0"; break;
	case K::I8: out += std::to_string(n.i8); break;
	case K::U8: out += std::to_string(n.u8); break;
	case K::I16: out += std::to_string(n.i16); break;
	case K::U16: out += std::to_string(n.u16); break;
	case K::I32: out += std::to_string(n.i32); break;
	case K::U32: out += std::to_string(n.u32); break;
	case K::I64: out += std::to_string(n.i64); break;
	case K::U64: out += std::to_string(n.u64); break;
	case K::F32: HexAppend(out, &n.f32, 4); break;
	case K::F64: HexAppend(out, &n.f64, 8); break;
	case K::Str: HexAppend(out, n.s.data(), n.s.size()); break;
	case K::Str16: HexAppend(out, n.s16.data(), n.s16.size() * 2); break;
	case K::Str32: HexAppend(out, n.s32.data(), n.s32.size() * 4); break;
	case K::WStr: HexAppend(out, n.ws.data(), n.ws.size() * sizeof(wchar_t)); break;
	case K::Bin: HexAppend(out, n.bin.data(), n.bin.size()); break;
	case K::Ts: out += std::to_string(n.tp.time_since_epoch().count()); break;
	case K::Arr:
		out.push_back('[');
		for (auto& c : n.items) { Repr(c, out); out.push_back(','); }
		out.push_back(']');
		break;
	case K::Obj:
		out.push_back('{');
		for (size_t i = 0; i < n.items.size(); ++i)
		{
			out += n.keys[i].isInt ? "#" : "$";
			if (n.keys[i].isInt) out += n.keys[i].str(); else HexAppend(out, n.keys[i].s.data(), n.keys[i].s.size());
			out.push_back('=');
			Repr(n.items[i], out);
			out.push_back(',');
		}
		out.push_back('}');
		break;
	default: break;
	}
}
inline std::string Repr(const DynNode& n) { std::string s; Repr(n, s); return s; }

// Skeleton: same shape and keys, every value at its default ("fresh object")
inline DynNode Skeleton(const DynNode& n)
{
	DynNode r(n.kind);
	r.keys = n.keys;
	r.required = n.required;
	r.readCount = n.readCount;
	r.sizeLie = n.sizeLie;
	r.useProgram = n.useProgram;
	r.program = n.program;
	r.items.reserve(n.items.size());
	for (auto& c : n.items) r.items.push_back(Skeleton(c));
	return r;
}

inline void SetMarker(DynNode& t)
{
	t.b = true; t.i8 = 0x55; t.u8 = 0x55; t.i16 = 0x5555; t.u16 = 0x5555; t.i32 = 0x55555555; t.u32 = 0x55555555u;
	t.i64 = 0x5555555555555555ll; t.u64 = 0x5555555555555555ull; t.f32 = 1.5f; t.f64 = 1.5; t.s = "\x01marker"; t.s16 = u"\x01marker"; t.s32 = U"\x01marker"; t.ws = L"\x01marker";
	t.bin = { 1, 2, 3 };
	t.tp = std::chrono::system_clock::time_point(std::chrono::seconds(0x55555555));
}

// ------------------------------------------------------------------------------------------------
// serialization
// ------------------------------------------------------------------------------------------------
template <class A, class TKey>
void DynNode::Member(A& ar, const TKey& key, DynNode& c)
{
	constexpr bool flat = A::archive_type == ArchiveType::Csv;
	bool ld = false;
	auto kv = [&](auto& value)
	{
		if (c.required) ar << KeyValue(key, value, Required(), Spy{ &ld });
		else ar << KeyValue(key, value, Spy{ &ld });
	};
	switch (c.kind)
	{
	case K::Null: { std::nullptr_t np = nullptr; kv(np); } break;
	case K::Bool: kv(c.b); break;
	case K::I8: kv(c.i8); break;
	case K::U8: kv(c.u8); break;
	case K::I16: kv(c.i16); break;
	case K::U16: kv(c.u16); break;
	case K::I32: kv(c.i32); break;
	case K::U32: kv(c.u32); break;
	case K::I64: kv(c.i64); break;
	case K::U64: kv(c.u64); break;
	case K::F32: kv(c.f32); break;
	case K::F64: kv(c.f64); break;
	case K::Str: kv(c.s); break;
	case K::Str16: kv(c.s16); break;
	case K::Str32: kv(c.s32); break;
	case K::WStr: kv(c.ws); break;
	case K::Ts: kv(c.tp); break;
	case K::Bin:
		if constexpr (!flat)
		{
			if constexpr (!A::IsLoading()) { if (c.binAsArray) { std::vector<uint16_t> plain(c.bin.begin(), c.bin.end()); kv(plain); break; } }
			kv(c.bin);
		}
		break;
	case K::Arr: if constexpr (!flat) { ArrView v{ &c }; kv(v); } break;
	case K::Obj: if constexpr (!flat) { kv(c); } break;
	default: break;
	}
	if constexpr (A::IsLoading()) { c.loaded = ld; }
}

template <class A>
bool DynNode::Item(A& ar, DynNode& c)
{
	constexpr bool flat = A::archive_type == ArchiveType::Csv;
	using BitSerializer::Serialize;
	if constexpr (flat)
	{
		return c.kind == K::Obj ? Serialize(ar, c) : false;
	}
	else
	{
		switch (c.kind)
		{
		case K::Null: { std::nullptr_t np = nullptr; return Serialize(ar, np); }
		case K::Bool: return Serialize(ar, c.b);
		case K::I8: return Serialize(ar, c.i8);
		case K::U8: return Serialize(ar, c.u8);
		case K::I16: return Serialize(ar, c.i16);
		case K::U16: return Serialize(ar, c.u16);
		case K::I32: return Serialize(ar, c.i32);
		case K::U32: return Serialize(ar, c.u32);
		case K::I64: return Serialize(ar, c.i64);
		case K::U64: return Serialize(ar, c.u64);
		case K::F32: return Serialize(ar, c.f32);
		case K::F64: return Serialize(ar, c.f64);
		case K::Str: return Serialize(ar, c.s);
		case K::Str16: return Serialize(ar, c.s16);
		case K::Str32: return Serialize(ar, c.s32);
		case K::WStr: return Serialize(ar, c.ws);
		case K::Ts: return Serialize(ar, c.tp);
		case K::Bin:
			if constexpr (!A::IsLoading()) { if (c.binAsArray) { std::vector<uint16_t> plain(c.bin.begin(), c.bin.end()); return Serialize(ar, plain); } }
			return Serialize(ar, c.bin);
		case K::Arr: { ArrView v{ &c }; return Serialize(ar, v); }
		case K::Obj: return Serialize(ar, c);
		default: return false;
		}
	}
}

template <class A>
void DynNode::SerializeItems(A& ar)
{
	if constexpr (A::IsLoading())
	{
		const size_t want = readCount < 0 ? items.size() : std::min(items.size(), static_cast<size_t>(readCount));
		size_t i = 0;
		for (; i < want && !ar.IsEnd(); ++i)
		{
			items[i].loaded = Item(ar, items[i]);
		}
		loadedCount = static_cast<uint32_t>(i);
		extra = readCount < 0 && !ar.IsEnd();
	}
	else
	{
		for (auto& c : items) Item(ar, c);
	}
}

template <class A, class TKey>
void DynNode::Absent(A& ar, const TKey& key, const ReqOp& op, OpResult& r)
{
	DynNode t(op.kind);
	SetMarker(t);
	DynNode m(op.kind);
	SetMarker(m);
	Member(ar, key, t);
	r.loaded = t.loaded;
	r.untouched = Repr(t) == Repr(m);
}

template <class A>
void DynNode::RunProgram(A& ar)
{
	if constexpr (A::IsLoading())
	{
		for (const auto& op : program)
		{
			OpResult r;
			r.type = op.type;
			r.member = op.member;
			switch (op.type)
			{
			case ReqOp::Get:
				if (op.member < items.size())
				{
					MemberAt(ar, op.member);
					r.loaded = items[op.member].loaded;
					Repr(items[op.member], r.valueRepr);
				}
				break;
			case ReqOp::GetAbsent:
				WithKey<A>(op.key, [&](const auto& key) { Absent(ar, key, op, r); });
				break;
			case ReqOp::VisitKeys:
				ar.VisitKeys([&r](auto&& k) { r.keys.push_back(Convert::ToString(k)); });
				break;
			}
			results.push_back(std::move(r));
		}
	}
}

template <class A>
void DynNode::Serialize(A& ar)
{
	if constexpr (A::IsLoading())
	{
		if (useProgram) { RunProgram(ar); return; }
	}
	for (size_t m = 0; m < items.size(); ++m) MemberAt(ar, m);
}

} // namespace vm
