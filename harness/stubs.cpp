// Scenarios not yet implemented link to this stub.
#include "common.h"
namespace hz {
#define STUB(n) __attribute__((weak)) Outcome n(RunCtx&) { Outcome o; return o; }

}
